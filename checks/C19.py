"""
C19 - the bundled template engine is a conservative extension of stock Jinja2.
Static: confinement of Nunavut's lexer/parser modifications to the `*` marker; shape of the two extensions.
"""
import ast
import copy
import re

try:
    import re._parser as sre_parse
    import re._constants as sre_c
except ImportError:  # pragma: no cover
    import sre_parse  # type: ignore
    import sre_constants as sre_c  # type: ignore

from nvsa import pyfront
from nvsa.report import AnalysisError

B = "\u0001"  # stands for the (escaped) start string in the format strings


def _parse_module(ctx, rel):
    p = ctx.src / rel
    if not p.exists():
        raise AnalysisError(f"anchor missing: {rel}")
    return ast.parse(p.read_text(encoding="utf-8"), filename=str(p)), p


def _alts(parsed):
    """top-level alternatives of a parsed (sub)pattern: list of op sequences"""
    items = list(parsed)
    if len(items) == 1 and items[0][0] is sre_c.BRANCH:
        return [list(a) for a in items[0][1][1]]
    return [items]


def _is_lit(op, ch):
    return op[0] is sre_c.LITERAL and op[1] == ord(ch)


def _stock(alt):
    """stock forms:  B   |   \\s* B -   """
    if len(alt) == 1 and _is_lit(alt[0], B):
        return True
    if len(alt) == 3 and alt[0][0] in (sre_c.MAX_REPEAT, sre_c.MIN_REPEAT) and _is_lit(alt[1], B) and _is_lit(alt[2], "-"):
        rep = alt[0][1]
        inner = list(rep[2])
        return rep[0] == 0 and len(inner) == 1 and inner[0][0] is sre_c.IN and any(
            x[0] is sre_c.CATEGORY and x[1] is sre_c.CATEGORY_SPACE for x in inner[0][1])
    return False


def _star_confined(alt):
    """non-stock alternative: the start string must be followed immediately by a mandatory literal '*'"""
    for i, op in enumerate(alt):
        if _is_lit(op, B):
            return i + 1 < len(alt) and _is_lit(alt[i + 1], "*")
    return False


def rule_lexer(ctx):
    R = "R-C19-LEXER"
    ctx.rule(
        R,
        "in the root lexing rule every alternative of the *_begin groups that is not of a stock form (`START` or "
        "`\\s*START-`) requires the literal `*` immediately after the start string, so input without `{%*` / `{{*` "
        "can never take a modified alternative",
    )
    tree, path = _parse_module(ctx, "jinja/jinja2/lexer.py")
    fmt_strings = []
    for n in ast.walk(tree):
        if isinstance(n, ast.Constant) and isinstance(n.value, str) and "_begin>" in n.value:
            fmt_strings.append(n)
    if len(fmt_strings) < 2:
        raise AnalysisError("anchor missing: *_begin format strings in lexer.py")
    rel = ctx.rel(path)
    n_alt = 0
    for c in fmt_strings:
        s = c.value.replace("%s", B, )
        # the group name placeholder (?P<%s_begin> became (?P<\x01_begin>: give it a legal name
        s = s.replace("(?P<" + B + "_begin>", "(?P<x_begin>")
        try:
            parsed = sre_parse.parse(s)
        except Exception as e:
            raise AnalysisError(f"cannot parse lexer format string at line {c.lineno}: {e}")
        # descend: the named group is the first SUBPATTERN
        groups = [op for op in parsed if op[0] is sre_c.SUBPATTERN]
        if not groups:
            raise AnalysisError(f"no group in lexer format string at line {c.lineno}")
        body = groups[0][1][3]
        alts = _alts(body)
        # raw_begin: the alternatives live in the leading non-capturing group
        if len(alts) == 1:
            first = alts[0][0]
            if first[0] is sre_c.SUBPATTERN:
                alts = _alts(first[1][3])
            elif first[0] is sre_c.BRANCH:
                alts = [list(a) for a in first[1][1]]
        name = "raw_begin" if "raw_begin" in c.value else "<tag>_begin"
        for i, alt in enumerate(alts):
            n_alt += 1
            desc = _describe(alt)
            if _stock(alt):
                ctx.ob(R, rel, f"{name} alternative #{i + 1} `{desc}`", True, "stock form", c.lineno)
            else:
                ok = _star_confined(alt)
                ctx.ob(R, rel, f"{name} alternative #{i + 1} `{desc}`", ok,
                       "requires the `*` marker" if ok else
                       "non-stock alternative can match a start string that is not followed by `*`: ordinary templates lex differently from stock Jinja2",
                       c.lineno)
    ctx.floor(R, n_alt, 6)
    _lexer_slots(ctx, R, tree, rel)
    _lexer_cache_key(ctx, R, tree, rel)
    _trailing_newline(ctx, R, tree, rel)
    _string_literal_order(ctx, R, tree, rel)


def _string_literal_order(ctx, R, tree, rel):
    """The value of a string literal is the *source text* of the literal with its line breaks normalised, then unescaped.  Normalising
    after unescaping rewrites the characters a template author spelled as escapes on purpose (`"\\r\\n"` becomes the environment's
    newline sequence), which no stock Jinja2 does - and it is invisible to every built-in template.  Decided as a data-flow order over
    Lexer.wrap and the private methods it calls: the operand of the unicode-escape decoding derives from the result of
    _normalize_newlines, never the other way round."""
    cls = next((c for c in ast.walk(tree) if isinstance(c, ast.ClassDef) and c.name == "Lexer"), None)
    if cls is None:
        raise AnalysisError("anchor missing: class Lexer")
    methods = {m.name: m for m in cls.body if isinstance(m, ast.FunctionDef)}
    wrap = methods.get("wrap")
    if wrap is None:
        raise AnalysisError("anchor missing: Lexer.wrap")

    def flat(e, fn, depth=0):
        """expression with locals substituted and calls of private methods replaced by their (single) returned expression"""
        e = pyfront.subst_locals(fn, e)

        class Inl(ast.NodeTransformer):
            def visit_Call(self, node):
                self.generic_visit(node)
                if depth < 3 and isinstance(node.func, ast.Attribute) and isinstance(node.func.value, ast.Name) and node.func.value.id == "self" \
                        and node.func.attr in methods and node.func.attr.startswith("_") and node.func.attr != "_normalize_newlines":
                    h = methods[node.func.attr]
                    rets = [r for r in ast.walk(h) if isinstance(r, ast.Return) and r.value is not None]
                    if len(rets) == 1:
                        hp = [a.arg for a in h.args.args][1:]
                        body = flat(rets[0].value, h, depth + 1)

                        class Bind(ast.NodeTransformer):
                            def visit_Name(self, n_):
                                return dict(zip(hp, node.args)).get(n_.id, n_) if isinstance(n_.ctx, ast.Load) else n_
                        import copy
                        return Bind().visit(copy.deepcopy(body))
                return node
        import copy
        return Inl().visit(copy.deepcopy(e))

    n = 0
    for st in ast.walk(wrap):
        if not (isinstance(st, ast.Assign) and any(isinstance(c, ast.Constant) and c.value == "unicode-escape" for c in ast.walk(st.value))
                or isinstance(st, ast.Assign) and isinstance(st.value, ast.Call) and isinstance(st.value.func, ast.Attribute)
                and isinstance(st.value.func.value, ast.Name) and st.value.func.value.id == "self" and st.value.func.attr in methods
                and any(isinstance(c, ast.Constant) and c.value == "unicode-escape" for c in ast.walk(methods[st.value.func.attr]))):
            continue
        e = flat(st.value, wrap)
        dec = [c for c in ast.walk(e) if isinstance(c, ast.Call) and isinstance(c.func, ast.Attribute) and c.func.attr == "decode"
               and any(isinstance(a, ast.Constant) and a.value == "unicode-escape" for a in c.args)]
        norm = [c for c in ast.walk(e) if isinstance(c, ast.Call) and isinstance(c.func, ast.Attribute) and c.func.attr == "_normalize_newlines"]
        if not dec:
            continue
        n += 1
        ok = bool(norm) and all(any(x is nm for x in ast.walk(d.func.value)) for d in dec for nm in norm) and \
            not any(any(x is d for x in ast.walk(nm)) for d in dec for nm in norm)
        ctx.ob(R, rel, "Lexer.wrap :: a string literal is unescaped after its source line breaks were normalised", ok,
               "" if ok else f"`{ast.unparse(e)[:120]}`: the escapes are resolved first, so an escaped \\r / \\n written by the template author is rewritten to the "
               "environment's newline sequence", st.lineno)
    if n == 0:
        raise AnalysisError("anchor missing: the unicode-escape decoding of string literals in Lexer.wrap")


def _lexer_cache_key(ctx, R, tree, rel):
    """lexers are shared between environments through a cache: the key must contain every environment attribute that the Lexer
    constructor (and the rule compiler it calls) reads, or an environment gets a lexer built for other settings"""
    fns = {n.name: n for n in ast.walk(tree) if isinstance(n, ast.FunctionDef)}
    gl = fns.get("get_lexer")
    lexer_cls = next((n for n in tree.body if isinstance(n, ast.ClassDef) and n.name == "Lexer"), None)
    if gl is None or lexer_cls is None:
        raise AnalysisError("anchor missing: get_lexer / Lexer in lexer.py")
    env_param = gl.args.args[0].arg
    init = next((n for n in lexer_cls.body if isinstance(n, ast.FunctionDef) and n.name == "__init__"), None)
    if init is None:
        raise AnalysisError("anchor missing: Lexer.__init__")
    iparam = init.args.args[1].arg

    def env_reads(fn, pname, depth=0):
        out = set()
        for n in ast.walk(fn):
            if isinstance(n, ast.Attribute) and isinstance(n.value, ast.Name) and n.value.id == pname:
                out.add(n.attr)
            if isinstance(n, ast.Call) and isinstance(n.func, ast.Name) and n.func.id in fns and depth < 2:
                for i, a in enumerate(n.args):
                    if isinstance(a, ast.Name) and a.id == pname and i < len(fns[n.func.id].args.args):
                        out |= env_reads(fns[n.func.id], fns[n.func.id].args.args[i].arg, depth + 1)
        return out
    reads = env_reads(init, iparam)
    # the key: a tuple of environment attributes, or getattr over a constant tuple of names
    key_attrs = set()
    consts = {t.id: n.value for n in tree.body if isinstance(n, ast.Assign) and isinstance(n.value, (ast.Tuple, ast.List)) for t in n.targets if isinstance(t, ast.Name)}
    key_node = None
    for n in ast.walk(gl):
        if isinstance(n, ast.Assign) and isinstance(n.targets[0], ast.Name) and any(
                isinstance(c, ast.Call) and isinstance(c.func, ast.Attribute) and c.func.attr in ("get", "setdefault") and c.args and ast.unparse(c.args[0]) == n.targets[0].id
                for c in ast.walk(gl)):
            key_node = n.value
    if key_node is None:
        raise AnalysisError("anchor missing: cache key of get_lexer")
    for n in ast.walk(key_node):
        if isinstance(n, ast.Attribute) and isinstance(n.value, ast.Name) and n.value.id == env_param:
            key_attrs.add(n.attr)
        if isinstance(n, ast.Call) and isinstance(n.func, ast.Name) and n.func.id == "getattr" and len(n.args) >= 2 and ast.unparse(n.args[0]) == env_param:
            a1 = n.args[1]
            if isinstance(a1, ast.Constant):
                key_attrs.add(a1.value)
            elif isinstance(a1, ast.Name):
                # name iterates a constant tuple (comprehension / generator)
                for comp in ast.walk(key_node):
                    if isinstance(comp, ast.comprehension) and isinstance(comp.target, ast.Name) and comp.target.id == a1.id:
                        it = comp.iter
                        it = consts.get(it.id) if isinstance(it, ast.Name) else it
                        if isinstance(it, (ast.Tuple, ast.List)):
                            key_attrs |= {e.value for e in it.elts if isinstance(e, ast.Constant)}
    # operator.attrgetter('a', 'b', ...)(environment), the getter possibly held in a module-level name
    getters = {t.id: n.value for n in tree.body if isinstance(n, ast.Assign) and isinstance(n.value, ast.Call)
               and ast.unparse(n.value.func) in ("attrgetter", "operator.attrgetter") for t in n.targets if isinstance(t, ast.Name)}
    for n in ast.walk(key_node):
        if isinstance(n, ast.Call) and [ast.unparse(a) for a in n.args] == [env_param]:
            g_ = getters.get(n.func.id) if isinstance(n.func, ast.Name) else (n.func if isinstance(n.func, ast.Call) and ast.unparse(n.func.func) in ("attrgetter", "operator.attrgetter") else None)
            if g_ is not None:
                key_attrs |= {a.value for a in g_.args if isinstance(a, ast.Constant) and isinstance(a.value, str) and "." not in a.value}
    ctx.unit("lexer_environment_reads", sorted(reads))
    missing = sorted(reads - key_attrs)
    ok = bool(reads) and not missing
    ctx.ob(R, rel, f"get_lexer :: the cache key covers the {len(reads)} environment attributes the Lexer is built from", ok,
           "" if ok else f"{missing} shape the lexer but are not part of the key: a second environment that differs only there is handed the first one's lexer "
           "(ordinary templates are then lexed differently from stock Jinja2)", gl.lineno)


def _trailing_newline(ctx, R, tree, rel):
    """tokeniter drops every line terminator (splitlines + join) and, with keep_trailing_newline, puts one final line break back: the
    terminators it tests the end of the source for must be the language of the module's own newline_re - a style left out loses its
    final newline (stock Jinja2 keeps it), one added makes a newline out of text that is none"""
    from checks.C15 import _regex_language
    pat = next((n.value.args[0].value for n in tree.body if isinstance(n, ast.Assign) and any(isinstance(t, ast.Name) and t.id == "newline_re" for t in n.targets)
                and isinstance(n.value, ast.Call) and n.value.args and isinstance(n.value.args[0], ast.Constant)), None)
    lexer_cls = next((n for n in tree.body if isinstance(n, ast.ClassDef) and n.name == "Lexer"), None)
    ti = next((n for n in lexer_cls.body if isinstance(n, ast.FunctionDef) and n.name == "tokeniter"), None) if lexer_cls is not None else None
    if pat is None or ti is None:
        raise AnalysisError("anchor missing: newline_re / Lexer.tokeniter")
    lang = _regex_language(pat)
    if not lang:
        raise AnalysisError(f"anchor changed: newline_re {pat!r} is not a finite alternation")
    src = ti.args.args[1].arg
    site = next((n for n in ast.walk(ti) if isinstance(n, ast.If) and "keep_trailing_newline" in ast.unparse(n.test)), None)
    if site is None:
        raise AnalysisError("anchor missing: keep_trailing_newline handling in Lexer.tokeniter")
    tested = set()
    understood = False
    for c in ast.walk(site):
        if isinstance(c, ast.Call) and isinstance(c.func, ast.Attribute) and c.func.attr == "endswith" and ast.unparse(c.func.value) == src and c.args:
            a = c.args[0]
            if isinstance(a, ast.Constant) and isinstance(a.value, str):
                tested.add(a.value)
                understood = True
            elif isinstance(a, (ast.Tuple, ast.List)) and all(isinstance(e, ast.Constant) for e in a.elts):
                tested |= {e.value for e in a.elts}
                understood = True
            elif isinstance(a, ast.Name):
                for lp in ast.walk(site):
                    if isinstance(lp, ast.For) and isinstance(lp.target, ast.Name) and lp.target.id == a.id and isinstance(lp.iter, (ast.Tuple, ast.List)) \
                            and all(isinstance(e, ast.Constant) for e in lp.iter.elts):
                        tested |= {e.value for e in lp.iter.elts}
                        understood = True
        if isinstance(c, ast.Compare) and len(c.ops) == 1 and isinstance(c.ops[0], ast.In) and ast.unparse(c.left) in (f"{src}[-1]", f"{src}[-1:]"):
            r = c.comparators[0]
            if isinstance(r, ast.Constant) and isinstance(r.value, str):
                tested |= set(r.value)
                understood = True
            elif isinstance(r, (ast.Tuple, ast.List, ast.Set)) and all(isinstance(e, ast.Constant) for e in r.elts):
                tested |= {e.value for e in r.elts}
                understood = True
    if not understood:
        raise AnalysisError("anchor changed: how Lexer.tokeniter tests the end of the source for a line terminator")
    uncovered = sorted(l for l in lang if not any(l.endswith(t_) for t_ in tested if t_))
    foreign = sorted(t_ for t_ in tested if t_ not in lang)
    ok = not uncovered and not foreign
    ctx.ob(R, rel, "Lexer.tokeniter :: keep_trailing_newline restores the final line break for exactly the terminators of newline_re", ok,
           f"terminators {sorted(lang)!r}" if ok else
           (f"a source ending in {uncovered!r} loses its final newline although keep_trailing_newline is set (stock Jinja2 keeps it)" if uncovered else
            f"{foreign!r} is treated as a final line break but is none for newline_re"), site.lineno)


def _lexer_slots(ctx, R, tree, rel):
    """Which expression fills each start-string slot of the opener regexes: the bare (unmarked, no `-`) alternative of every
    block opener - `{% raw %}`, `{% endraw %}`, every `<tag>_begin` - takes the lstrip-aware prefix expression, the `-` and `*`
    alternatives take the plain escaped start string.  (With lstrip_blocks off both are the same string.)"""
    init = None
    for n in ast.walk(tree):
        if isinstance(n, ast.ClassDef) and n.name == "Lexer":
            for f in n.body:
                if isinstance(f, ast.FunctionDef) and f.name == "__init__":
                    init = f
    if init is None:
        raise AnalysisError("anchor missing: Lexer.__init__")
    asg = {}
    for n in ast.walk(init):
        if isinstance(n, ast.Assign) and len(n.targets) == 1 and isinstance(n.targets[0], ast.Name):
            asg.setdefault(n.targets[0].id, []).append(n.value)

    rule_start_names = set()   # `for n, r in root_tag_rules`: r is the escaped start string of tag kind n (compile_rules)
    for comp in ast.walk(init):
        if isinstance(comp, (ast.ListComp, ast.GeneratorExp)):
            for g in comp.generators:
                if isinstance(g.target, ast.Tuple) and len(g.target.elts) == 2 and all(isinstance(x, ast.Name) for x in g.target.elts) \
                        and (ast.unparse(g.iter) == "root_tag_rules" or ast.unparse(g.iter).startswith("compile_rules(")):
                    rule_start_names.add(g.target.elts[1].id)

    def is_plain_start(e, depth=0):
        if isinstance(e, ast.Name) and e.id in rule_start_names:
            return True
        if isinstance(e, ast.Call) and isinstance(e.func, ast.Name) and e.args and ast.unparse(e.args[0]).endswith(".block_start_string"):
            return True
        if isinstance(e, ast.Name) and e.id in asg and depth < 3:
            return all(is_plain_start(v, depth + 1) for v in asg[e.id])
        if isinstance(e, ast.BinOp) and isinstance(e.op, ast.Mod) and isinstance(e.left, ast.Constant) and e.left.value == "%s":
            return is_plain_start(e.right, depth + 1)
        return False

    def is_prefix(e):
        if isinstance(e, ast.Call) and isinstance(e.func, ast.Attribute) and e.func.attr == "get" and "prefix_re" in ast.unparse(e.func.value):
            return True
        if isinstance(e, ast.Name) and e.id in asg:
            vals = asg[e.id]
            # assigned on both arms of the lstrip_blocks test: once with the lstrip pattern, once as the plain start string
            return any("lstrip_re" in ast.unparse(v) for v in vals) and any(is_plain_start(v) for v in vals)
        return False

    n = 0
    for b in ast.walk(init):
        if not (isinstance(b, ast.BinOp) and isinstance(b.op, ast.Mod) and isinstance(b.left, ast.Constant) and isinstance(b.left.value, str)):
            continue
        fmt = b.left.value
        if not ("_begin>" in fmt or "endraw" in fmt):
            continue
        args = list(b.right.elts) if isinstance(b.right, ast.Tuple) else [b.right]
        pos = [m.start() for m in re.finditer("%s", fmt)]
        if len(pos) != len(args):
            continue
        key = re.search(r"\\s\*(raw|endraw)\\s\*", fmt)
        opener_end = key.start() if key else len(fmt)
        what = (key.group(1) if key else "<tag>_begin")
        for i, (p0, a) in enumerate(zip(pos, args)):
            after = fmt[p0 + 2:p0 + 4]
            if fmt[p0 + 2:].startswith("_begin>") or p0 > opener_end:
                continue   # the group name / closing delimiters
            n += 1
            if after in ("\\-", "\\*"):
                ok = is_plain_start(a)
                ctx.ob(R, rel, f"{what}: the `{after[1]}` alternative is built on the plain start string", ok, "" if ok else f"slot filled with `{ast.unparse(a)}`", b.lineno)
            else:
                ok = is_prefix(a)
                ctx.ob(R, rel, f"{what}: the unmarked alternative is built on the lstrip-aware prefix", ok,
                       "" if ok else f"slot filled with `{ast.unparse(a)}`: with lstrip_blocks the indentation before this tag is no longer stripped "
                       "(its sibling openers use block_prefix_re) - ordinary templates lex differently from stock Jinja2", b.lineno)
    ctx.floor(R + ":slots", n, 6)


def _describe(alt):
    out = []
    for op in alt:
        if op[0] is sre_c.LITERAL:
            out.append("START" if op[1] == ord(B) else chr(op[1]))
        elif op[0] in (sre_c.MAX_REPEAT, sre_c.MIN_REPEAT):
            lo, hi = op[1][0], op[1][1]
            out.append("[..]" + ("*" if (lo, str(hi)) == (0, "MAXREPEAT") else ("?" if (lo, hi) == (0, 1) else f"{{{lo},{hi}}}")))
        else:
            out.append(str(op[0]).lower())
    return " ".join(out)


def _prefix_args(local_fns, call, tok, tokvals, fold, depth=0):
    """expressions that reach nodes.Const(..) - the argument of the lineprefix filter - when the wrapper `call` runs; parameters are
    bound to the call's arguments, the begin token is spelled TOK"""
    out = set()
    fn = local_fns.get(call.func.id) if isinstance(call.func, ast.Name) else None
    if fn is None or depth > 3:
        return out
    params = [a.arg for a in fn.args.args]
    bind = {p_: a for p_, a in zip(params, call.args)}

    def spell(e):
        e = pyfront.subst_locals(fn, e)

        class S(ast.NodeTransformer):
            def visit_Name(self, node):
                return bind.get(node.id, node)
        import copy
        e2 = S().visit(copy.deepcopy(e))
        return e2
    stack = list(ast.iter_child_nodes(fn))
    while stack:
        n_ = stack.pop()
        if isinstance(n_, (ast.FunctionDef, ast.Lambda)):
            continue
        stack.extend(ast.iter_child_nodes(n_))
        if isinstance(n_, ast.Call) and ast.unparse(n_.func) == "nodes.Const" and n_.args:
            e = spell(n_.args[0])
            if isinstance(e, ast.Name) and e.id in tokvals:
                out |= set(tokvals[e.id])
            else:
                out.add(ast.unparse(fold(e)).replace(tok, "TOK"))
        elif isinstance(n_, ast.Call) and isinstance(n_.func, ast.Name) and n_.func.id in local_fns and n_.func.id != call.func.id:
            inner = ast.Call(func=n_.func, args=[spell(a) for a in n_.args], keywords=[])
            out |= _prefix_args(local_fns, inner, tok, tokvals, fold, depth + 1)
    return out


def _canon_marker(e):
    """one spelling for `the begin token carries the auto-indent marker`:  t.value.endswith('*')  for
    t.value[-1:] == '*',  t.value and <that>,  bool(t.value) and <that>,  t.value and t.value[-1] == '*'"""
    def tokval(x):
        return isinstance(x, ast.Attribute) and x.attr == "value" and isinstance(x.value, ast.Name)

    def star(x):
        return isinstance(x, ast.Constant) and x.value == "*"

    class T(ast.NodeTransformer):
        def visit_Compare(self, node):
            self.generic_visit(node)
            if len(node.ops) == 1 and isinstance(node.ops[0], ast.Eq):
                a, b = node.left, node.comparators[0]
                if star(a):
                    a, b = b, a
                if star(b) and isinstance(a, ast.Subscript) and tokval(a.value) and ast.unparse(a.slice) in ("-1:", "-1"):
                    r = ast.Call(func=ast.Attribute(value=a.value, attr="endswith", ctx=ast.Load()), args=[ast.Constant("*")], keywords=[])
                    r._needs_nonempty = ast.unparse(a.slice) == "-1"
                    return r
            return node

        def visit_BoolOp(self, node):
            self.generic_visit(node)
            if isinstance(node.op, ast.And) and len(node.values) == 2:
                a, b = node.values
                if isinstance(a, ast.Call) and isinstance(a.func, ast.Name) and a.func.id == "bool" and len(a.args) == 1:
                    a = a.args[0]
                if tokval(a) and isinstance(b, ast.Call) and isinstance(b.func, ast.Attribute) and b.func.attr == "endswith" and b.args and star(b.args[0]) \
                        and ast.unparse(b.func.value) == ast.unparse(a):
                    b._needs_nonempty = False
                    return b
            return node
    import copy
    out = T().visit(copy.deepcopy(e))
    if any(getattr(n, "_needs_nonempty", False) for n in ast.walk(out)):
        return e      # t.value[-1] == '*' without the emptiness guard raises on an empty value: not the same test
    return ast.fix_missing_locations(out)


def _canon_marker_text(txt: str) -> str:
    try:
        return ast.unparse(_canon_marker(ast.parse(txt, mode="eval").body))
    except SyntaxError:
        return txt


def rule_parser(ctx):
    R = "R-C19-PARSER"
    ctx.rule(
        R,
        "autoindent() is called only under `token.value.endswith('*')`; the lineprefix filter node is constructed only "
        "inside autoindent; the unmarked branches append / extend the parsed statement and add the expression unchanged",
    )
    tree, path = _parse_module(ctx, "jinja/jinja2/parser.py")
    rel = ctx.rel(path)
    sub = None
    for n in ast.walk(tree):
        if isinstance(n, ast.FunctionDef) and n.name == "subparse":
            sub = n
    if sub is None:
        raise AnalysisError("anchor missing: Parser.subparse")
    local_fns = {f_.name: f_ for f_ in ast.walk(sub) if isinstance(f_, ast.FunctionDef) and f_ is not sub}
    # private methods of the parser class that subparse calls for its marker handling (`self._autoindent(rv, token)`) are the same thing
    # as closures of subparse: they are taken in with the receiver dropped, provided nothing but subparse (or one of them) refers to them
    owner = next((c_ for c_ in ast.walk(tree) if isinstance(c_, ast.ClassDef) and any(m_ is sub for m_ in c_.body)), None)
    helper_methods = {}
    if owner is not None:
        methods = {m_.name: m_ for m_ in owner.body if isinstance(m_, ast.FunctionDef)}

        def marker_related(m_, seen_=()):
            if any(isinstance(x, ast.Constant) and x.value in ("lineprefix", "*") for x in ast.walk(m_)):
                return True
            # ... or through the private methods it calls
            for c2 in ast.walk(m_):
                if isinstance(c2, ast.Call) and isinstance(c2.func, ast.Attribute) and isinstance(c2.func.value, ast.Name) and c2.func.value.id in ("self", "cls", owner.name) \
                        and c2.func.attr.startswith("_") and c2.func.attr in methods and c2.func.attr not in seen_ and len(seen_) < 4:
                    if marker_related(methods[c2.func.attr], seen_ + (c2.func.attr,)):
                        return True
            return False
        work = [sub]
        while work:
            cur = work.pop()
            for c_ in ast.walk(cur):
                if isinstance(c_, ast.Call) and isinstance(c_.func, ast.Attribute) and isinstance(c_.func.value, ast.Name) and c_.func.value.id in ("self", "cls", owner.name) \
                        and c_.func.attr.startswith("_") and c_.func.attr in methods and c_.func.attr not in helper_methods and c_.func.attr not in local_fns \
                        and marker_related(methods[c_.func.attr]):
                    helper_methods[c_.func.attr] = methods[c_.func.attr]
                    work.append(methods[c_.func.attr])
        # who may refer to them
        for hn, hm in list(helper_methods.items()):
            users = [n_ for n_ in ast.walk(tree) if isinstance(n_, ast.Attribute) and n_.attr == hn]
            allowed = [sub] + list(helper_methods.values())
            if not all(any(any(x is u for x in ast.walk(a_)) for a_ in allowed) for u in users):
                del helper_methods[hn]
        import copy as _copy
        for hn, hm in helper_methods.items():
            static = any(ast.unparse(d_) in ("staticmethod",) for d_ in hm.decorator_list)
            fn_ = _copy.deepcopy(hm)
            if not static and fn_.args.args:
                fn_.args.args = fn_.args.args[1:]
            local_fns[hn] = fn_

        class _Unmethod(ast.NodeTransformer):
            def visit_Call(self, node):
                self.generic_visit(node)
                if isinstance(node.func, ast.Attribute) and isinstance(node.func.value, ast.Name) and node.func.value.id in ("self", "cls", owner.name) \
                        and node.func.attr in helper_methods:
                    node.func = ast.copy_location(ast.Name(id=node.func.attr, ctx=ast.Load()), node.func)
                return node
        _Unmethod().visit(sub)
        for fn_ in local_fns.values():
            _Unmethod().visit(fn_)

    def own_nodes(fn):
        """nodes of fn that are not inside a nested def"""
        out, stack = [], list(ast.iter_child_nodes(fn))
        while stack:
            n_ = stack.pop()
            if isinstance(n_, (ast.FunctionDef, ast.Lambda)):
                continue
            out.append(n_)
            stack.extend(ast.iter_child_nodes(n_))
        return out

    def has_lp(node):
        return any(isinstance(x, ast.Constant) and x.value == "lineprefix" for x in ast.walk(node))

    def builds(fn, seen=()):
        nn = own_nodes(fn)
        if any(isinstance(x, ast.Constant) and x.value == "lineprefix" for x in nn):
            return True
        return any(isinstance(c, ast.Call) and isinstance(c.func, ast.Name) and c.func.id in local_fns and c.func.id not in seen
                   and builds(local_fns[c.func.id], seen + (c.func.id,)) for c in nn)
    wrappers = {n_ for n_, f_ in local_fns.items() if builds(f_)}
    # every place that names the filter is inside subparse (its body or its local helpers)
    n_lp = 0
    for n in ast.walk(tree):
        if isinstance(n, ast.Constant) and n.value == "lineprefix":
            n_lp += 1
            inside = any(x is n for x in ast.walk(sub)) or any(any(x is n for x in ast.walk(hm_)) for hm_ in helper_methods.values())
            ctx.ob(R, rel, "the lineprefix filter node is built by subparse only", inside,
                   "" if inside else "lineprefix filter nodes are created outside subparse's marker handling", n.lineno)
    if n_lp == 0:
        raise AnalysisError("anchor missing: construction of the lineprefix filter node in parser.py")

    # the two branches of the token dispatch
    def branch(kind):
        for n in ast.walk(sub):
            if isinstance(n, ast.If) and isinstance(n.test, ast.Compare) and len(n.test.comparators) == 1 and isinstance(n.test.comparators[0], ast.Constant) \
                    and n.test.comparators[0].value == kind and isinstance(n.test.left, ast.Attribute) and n.test.left.attr == "type" and isinstance(n.test.left.value, ast.Name):
                return n.test.left.value.id, n.body
        raise AnalysisError(f"anchor missing: the {kind} branch of subparse")

    def fold(e):
        """len('<literal>') -> its value"""
        class F(ast.NodeTransformer):
            def visit_Call(self, node):
                self.generic_visit(node)
                if isinstance(node.func, ast.Name) and node.func.id == "len" and len(node.args) == 1 and isinstance(node.args[0], ast.Constant) and isinstance(node.args[0].value, str):
                    return ast.Constant(len(node.args[0].value))
                return node
        import copy
        return ast.fix_missing_locations(F().visit(copy.deepcopy(e)))

    # a "prefix helper": one parameter (the begin token); every return that is not None sits under the marker test of that token
    def prefix_helper(fn):
        if len(fn.args.args) != 1:
            return None
        q = fn.args.args[0].arg
        vals, has_none = [], False
        for st, g in pyfront.walk_guarded(fn.body):
            if isinstance(st, ast.Return):
                if st.value is None or (isinstance(st.value, ast.Constant) and st.value.value is None):
                    has_none = True
                    continue
                terms = pyfront.guard_terms([(_canon_marker(pyfront.subst_locals(fn, t_)), p_) for t_, p_ in g])
                if not any(e == f"{q}.value.endswith('*')" and pol for e, pol in terms):
                    return None
                vals.append(ast.unparse(fold(pyfront.subst_locals(fn, st.value))).replace(q, "TOK"))
        return vals if vals and has_none else None
    prefix_helpers = {n_: prefix_helper(f_) for n_, f_ in local_fns.items()}
    prefix_helpers = {k: v for k, v in prefix_helpers.items() if v}
    marker_fns = {f_.name for f_ in local_fns.values() if len(f_.args.args) == 1 and f_.name not in prefix_helpers and any(
        isinstance(r, ast.Return) and r.value is not None and f"{f_.args.args[0].arg}.value.endswith('*')" in ast.unparse(_canon_marker(pyfront.subst_locals(f_, r.value)))
        for r in ast.walk(f_))}

    prefix_exprs = set()    # what reaches nodes.Const(<prefix>), token spelled TOK
    n_sinks = 0
    counters = {"sinks": 0}

    def analyse_body(kind, parse_fn, tok, body_, seed_env, ret_how, where, depth=0):
        nonlocal prefix_exprs

        def marker_of(terms, pvars):
            for e, pol in [(_canon_marker_text(e_), p_) for e_, p_ in terms]:
                if e == f"{tok}.value.endswith('*')" or any(e == f"{mf}({tok})" for mf in marker_fns):
                    return pol
                if e.replace(" ", "") == f"{tok}.valueand{tok}.value.endswith('*')":
                    return pol
                if not pol and f"{tok}.value.endswith('*')" in e:
                    try:
                        bo = ast.parse(e, mode="eval").body
                    except SyntaxError:
                        bo = None
                    if isinstance(bo, ast.BoolOp) and isinstance(bo.op, ast.And):
                        rest = [ast.unparse(v_) for v_ in bo.values if ast.unparse(v_) not in (f"{tok}.value.endswith('*')", f"{tok}.value")]
                        if rest:
                            return "entangled"   # not (marker and X): a marked construct takes this path whenever X is false
                for pv in pvars:
                    if e == f"{pv} is not None":
                        return pol
                    if e == f"{pv} is None":
                        return not pol
            return None

        for path in pyfront.enumerate_paths(body_):
            env, pvars, tokvals = dict(seed_env), set(), {}
            sinks = []
            parts = {}       # <node>.filter = <wrapper call> / <node>.body = <parsed construct>: a filter block built piece by piece

            def classify(e):
                if isinstance(e, ast.Name):
                    return env.get(e.id, ("other", e.id))
                if isinstance(e, ast.Call) and isinstance(e.func, ast.Attribute) and e.func.attr == parse_fn and ast.unparse(e.func.value) == "self":
                    return ("parsed",)
                if isinstance(e, ast.List) and len(e.elts) == 1 and classify(e.elts[0])[0] == "parsed":
                    return ("list1",)
                if isinstance(e, ast.IfExp) and ast.unparse(e.test).startswith("isinstance(") and classify(e.body)[0] == "parsed" and classify(e.orelse)[0] == "list1":
                    return ("aslist",)
                if isinstance(e, ast.Call) and isinstance(e.func, ast.Name) and e.func.id in wrappers:
                    inner = [classify(a) for a in e.args]
                    return ("wrapped", e) if any(c_[0] in ("parsed", "list1", "aslist") for c_ in inner) else ("other", ast.unparse(e))
                if isinstance(e, ast.List) and len(e.elts) == 1 and classify(e.elts[0])[0] == "wrapped":
                    return ("wrapped1", classify(e.elts[0])[1])
                if has_lp(e) and any(classify(a)[0] in ("parsed", "list1", "aslist") for a in ast.walk(e) if isinstance(a, ast.Name)):
                    return ("wrapped", e)
                return ("other", ast.unparse(e))

            for st in path.stmts:
                if isinstance(st, ast.Assign) and len(st.targets) == 1 and isinstance(st.targets[0], ast.Name):
                    v = st.value
                    if isinstance(v, ast.Call) and isinstance(v.func, ast.Name) and v.func.id in prefix_helpers and [ast.unparse(a) for a in v.args] == [tok]:
                        pvars.add(st.targets[0].id)
                        tokvals[st.targets[0].id] = prefix_helpers[v.func.id]
                        env[st.targets[0].id] = ("prefix", st.targets[0].id)
                    else:
                        env[st.targets[0].id] = classify(v)
                elif isinstance(st, ast.Assign) and len(st.targets) == 1 and isinstance(st.targets[0], ast.Attribute) and isinstance(st.targets[0].value, ast.Name):
                    holder, attr = st.targets[0].value.id, st.targets[0].attr
                    clv = classify(st.value)
                    if attr == "filter" and clv[0] in ("wrapped", "other") and isinstance(st.value, ast.Call) and isinstance(st.value.func, ast.Name) and st.value.func.id in wrappers:
                        parts.setdefault(holder, {})["filter"] = st.value
                    elif attr == "filter" and has_lp(st.value):
                        parts.setdefault(holder, {})["filter"] = st.value
                    elif attr == "body" and clv[0] in ("parsed", "list1", "aslist"):
                        parts.setdefault(holder, {})["body"] = clv
                    if set(parts.get(holder, {})) == {"filter", "body"}:
                        env[holder] = ("wrapped", parts[holder]["filter"])
                elif isinstance(st, ast.Return) and ret_how is not None and st.value is not None:
                    cl = classify(st.value)
                    sinks.append((ret_how, cl, st))
                elif isinstance(st, ast.Expr) and isinstance(st.value, ast.Call) and st.value.args:
                    c = st.value
                    how = "extend" if isinstance(c.func, ast.Attribute) and c.func.attr == "extend" else "append"
                    a0 = c.args[0]
                    # the construct and its begin token handed to a helper that decides about the marker itself: judged inside the helper
                    if isinstance(a0, ast.Call) and isinstance(a0.func, ast.Name) and a0.func.id in local_fns and depth < 2 and len(a0.args) >= 2 \
                            and classify(a0.args[0])[0] in ("parsed", "list1", "aslist") and tok in [ast.unparse(x_) for x_ in a0.args]:
                        h = local_fns[a0.func.id]
                        hp = [x_.arg for x_ in h.args.args]
                        decides = any(isinstance(x_, ast.Call) and isinstance(x_.func, ast.Name) and x_.func.id in prefix_helpers for x_ in ast.walk(h)) or \
                            "endswith('*')" in ast.unparse(_canon_marker(ast.Module(body=h.body, type_ignores=[])))
                        if decides and len(hp) == len(a0.args):
                            seed = {hp[k_]: classify(a0.args[k_]) for k_ in range(len(hp)) if classify(a0.args[k_])[0] in ("parsed", "list1", "aslist")}
                            htok = hp[[ast.unparse(x_) for x_ in a0.args].index(tok)]
                            analyse_body(kind, parse_fn, htok, h.body, seed, how if kind == "block_begin" else "append", a0.func.id, depth + 1)
                            continue
                    cl = classify(a0)
                    if cl[0] != "other" and cl[0] != "prefix":
                        sinks.append((how, cl, c))
            if not sinks:
                continue
            terms = path.terms()
            marked = marker_of(terms, pvars)
            is_list = next((pol for e, pol in terms if e.startswith("isinstance(") and e.endswith(", list)")), None)
            for how, cl, c in sinks:
                counters["sinks"] += 1
                label = f"{where} :: {kind}: `{ast.unparse(c)[:50]}` " + ("[marked]" if marked else "[unmarked]")
                if marked == "entangled":
                    ok = cl[0] in ("wrapped", "wrapped1")
                    ctx.ob(R, rel, label.replace("[marked]", "[marker test mixed with another condition]") + " adds the construct wrapped in the lineprefix filter", ok,
                           "" if ok else "the marker test is and-ed with another condition: where that condition is false a construct opened with the auto-indent "
                           "marker is added without the line prefix", c.lineno)
                elif marked:
                    ok = cl[0] in ("wrapped", "wrapped1") and (kind == "variable_begin" or (how == "append") == (cl[0] == "wrapped"))
                    ctx.ob(R, rel, label + " adds the construct wrapped in the lineprefix filter", ok,
                           "" if ok else "a construct opened with the auto-indent marker is added without the line prefix", c.lineno)
                    if ok:
                        # the prefix argument at this call, resolved through the helper chain
                        call = cl[1]
                        if isinstance(call, ast.Call) and isinstance(call.func, ast.Name):
                            prefix_exprs |= _prefix_args(local_fns, call, tok, tokvals, fold)
                        else:
                            for k_ in ast.walk(call):
                                if isinstance(k_, ast.Call) and ast.unparse(k_.func) == "nodes.Const" and k_.args:
                                    prefix_exprs.add(ast.unparse(fold(pyfront.subst_locals(sub, k_.args[0]))).replace(tok, "TOK"))
                else:
                    if kind == "variable_begin":
                        ok = cl[0] == "parsed"
                    else:
                        ok = (how == "extend" and (cl[0] in ("list1", "aslist") or (cl[0] == "parsed" and is_list is True))) or \
                             (how == "append" and cl[0] == "parsed" and is_list is False)
                    ctx.ob(R, rel, label + " adds the parsed construct unchanged (a node list is spliced, a single node appended)", ok,
                           "" if ok else f"without the marker the construct reaches the body as {cl[0]} via {how} under {terms}: ordinary templates get another node tree than "
                           "stock Jinja2 builds", c.lineno)

    for kind, parse_fn in (("variable_begin", "parse_tuple"), ("block_begin", "parse_statement")):
        tok, body_ = branch(kind)
        analyse_body(kind, parse_fn, tok, body_, {}, None, "subparse")
    n_sinks = counters["sinks"]
    ctx.floor(R + ":sinks", n_sinks, 4)
    ok = prefix_exprs == {"TOK.value[:-3]"}
    ctx.ob(R, rel, "subparse :: the line prefix is the marker token without its three marker characters", ok,
           "" if ok else f"prefix expressions: {sorted(prefix_exprs)}: the prefix would keep part of the delimiter or lose indentation", sub.lineno)
    # the filter implementation exists and only prefixes non-empty lines... (shape: uses the given prefix only)
    ftree, fpath = _parse_module(ctx, "jinja/jinja2/filters.py")
    dl = [n for n in ast.walk(ftree) if isinstance(n, ast.FunctionDef) and n.name == "do_lineprefix"]
    ctx.ob(R, ctx.rel(fpath), "do_lineprefix exists (registered only under the new name 'lineprefix')", len(dl) == 1, "")
    regs = [n for n in ast.walk(ftree) if isinstance(n, ast.Dict) and any(isinstance(k, ast.Constant) and k.value == "lineprefix" for k in n.keys)]
    if regs:
        d = regs[0]
        names = [k.value for k in d.keys if isinstance(k, ast.Constant)]
        vals = {k.value: ast.unparse(v) for k, v in zip(d.keys, d.values) if isinstance(k, ast.Constant)}
        only = [k for k, v in vals.items() if v == "do_lineprefix"]
        ctx.ob(R, ctx.rel(fpath), "do_lineprefix replaces no stock filter", only == ["lineprefix"], f"registered as {only}")


def rule_lineprefix(ctx):
    R = "R-C19-LINEPREFIX"
    ctx.rule(
        R,
        "do_lineprefix only adds the prefix: it must keep every line terminator of its input (split with keepends, or "
        "substitute at line starts) - splitting without keepends and re-joining with a fixed newline normalises CRLF "
        "and drops a trailing terminator, so a marked construct no longer renders as the plain construct prefixed",
    )
    ftree, fpath = _parse_module(ctx, "jinja/jinja2/filters.py")
    dl = [n for n in ast.walk(ftree) if isinstance(n, ast.FunctionDef) and n.name == "do_lineprefix"]
    if len(dl) != 1:
        raise AnalysisError("anchor missing: do_lineprefix")
    f = dl[0]
    mod_fns = {n.name: n for n in ftree.body if isinstance(n, ast.FunctionDef)}
    # the unit: do_lineprefix and the module-private helpers it calls (a helper shared with a stock filter is judged here for what it
    # does on behalf of do_lineprefix); parameters of a helper are traced back to the arguments of the call
    unit = [(f, {})]          # (function, parameter -> argument expression at the call in the caller, caller index)
    seen_h = {f.name}
    k = 0
    while k < len(unit):
        fn_, _ = unit[k]
        for c in ast.walk(fn_):
            if isinstance(c, ast.Call) and isinstance(c.func, ast.Name) and c.func.id.startswith("_") and c.func.id in mod_fns and c.func.id not in seen_h:
                h = mod_fns[c.func.id]
                seen_h.add(h.name)
                hp = [a.arg for a in h.args.args]
                bind = {p_: a_ for p_, a_ in zip(hp, c.args)}
                if h.args.vararg is not None:
                    bind[h.args.vararg.arg] = ast.Tuple(elts=list(c.args[len(hp):]), ctx=ast.Load())
                unit.append((h, {"bind": bind, "caller": k}))
        k += 1

    def origin(idx, name, depth=0):
        """the expression in do_lineprefix a helper's parameter stands for (name itself when it is not a parameter)"""
        fn_, info = unit[idx]
        if not info or name not in info["bind"] or depth > 4:
            return idx, name
        a = info["bind"][name]
        if isinstance(a, ast.Name):
            return origin(info["caller"], a.id, depth + 1)
        return info["caller"], ast.unparse(a)

    splits = [c for fn_, _ in unit for c in ast.walk(fn_) if isinstance(c, ast.Call) and isinstance(c.func, ast.Attribute) and c.func.attr in ("splitlines", "split")]
    lossy = []
    for c in splits:
        if c.func.attr == "splitlines":
            keep = (c.args and isinstance(c.args[0], ast.Constant) and bool(c.args[0].value)) or any(
                k_.arg == "keepends" and isinstance(k_.value, ast.Constant) and bool(k_.value.value) for k_ in c.keywords)
            if not keep:
                lossy.append(ast.unparse(c))
        else:
            lossy.append(ast.unparse(c))
    joins = [(idx, c) for idx, (fn_, _) in enumerate(unit) for c in ast.walk(fn_) if isinstance(c, ast.Call) and isinstance(c.func, ast.Attribute) and c.func.attr == "join"]
    ok = not (lossy and joins)
    ctx.ob(R, ctx.rel(fpath), "do_lineprefix :: line terminators are preserved", ok,
           "" if ok else f"{lossy[0]} discards the terminators and the lines are re-joined with a fixed newline: "
           "`{{* v }}` with v='a\\nb\\n' renders 'a\\n  b' (trailing newline lost), v='a\\r\\nb' loses the CR", f.lineno)
    # a Markup input gives a Markup result (stock filters keep safe strings safe): the string that joins the lines is Markup
    # whenever the input is - str.join of Markup pieces returns a plain str, which autoescaping then escapes a second time
    sparam = f.args.args[0].arg
    pparam = f.args.args[1].arg

    def like_helper(h):
        """h(s, *xs) returns its other arguments as Markup when s is Markup and unchanged otherwise"""
        if not h.args.args:
            return False
        p0 = h.args.args[0].arg
        mk, plain = False, False
        for st, gd in pyfront.walk_guarded(h.body, ()):
            if isinstance(st, ast.Return) and st.value is not None:
                terms = pyfront.guard_terms(gd)
                if any(e == f"isinstance({p0}, Markup)" and pol for e, pol in terms):
                    v = st.value
                    elts = v.elts if isinstance(v, ast.Tuple) else [v]
                    gen = [g_ for g_ in ast.walk(v) if isinstance(g_, (ast.GeneratorExp, ast.ListComp))]
                    mk = all(isinstance(e_, ast.Call) and ast.unparse(e_.func) == "Markup" for e_ in elts) or \
                        (len(gen) == 1 and isinstance(gen[0].elt, ast.Call) and ast.unparse(gen[0].elt.func) == "Markup" and not gen[0].generators[0].ifs)
                else:
                    plain = True
        return mk and plain

    markup_names = set()          # names of do_lineprefix that are Markup whenever the input is
    prefix_names = {pparam}       # ... that denote the prefix
    for st, gd in pyfront.walk_guarded(f.body, ()):
        if not isinstance(st, ast.Assign):
            continue
        tg, vals = st.targets[0], st.value
        if any(e == f"isinstance({sparam}, Markup)" and pol for e, pol in pyfront.guard_terms(gd)):
            pairs = list(zip(tg.elts, vals.elts)) if isinstance(tg, ast.Tuple) and isinstance(vals, ast.Tuple) else [(tg, vals)]
            for t_, v_ in pairs:
                if isinstance(t_, ast.Name) and isinstance(v_, ast.Call) and ast.unparse(v_.func) == "Markup":
                    markup_names.add(t_.id)
        elif isinstance(vals, ast.Call) and isinstance(vals.func, ast.Name) and vals.func.id in mod_fns and like_helper(mod_fns[vals.func.id]) \
                and vals.args and ast.unparse(vals.args[0]) == sparam:
            tgs = tg.elts if isinstance(tg, ast.Tuple) else [tg]
            for t_, a_ in zip(tgs, vals.args[1:]):
                if isinstance(t_, ast.Name):
                    markup_names.add(t_.id)
                    if isinstance(a_, ast.Name) and a_.id in prefix_names:
                        prefix_names.add(t_.id)
    for idx, c in joins:
        recv = c.func.value
        okj = False
        if isinstance(recv, ast.Name):
            oi, on = origin(idx, recv.id)
            okj = oi == 0 and on in markup_names
        elif isinstance(recv, ast.Call) and ast.unparse(recv.func) in ("Markup", f"type({sparam})"):
            okj = True
        ctx.ob(R, ctx.rel(fpath), "do_lineprefix :: a safe (Markup) value stays safe: the joining newline is Markup when the input is", okj,
               "" if okj else f"lines are joined with `{ast.unparse(recv)}`: for a Markup input the result is a plain str, and `{{{{* macro() }}}}` in an autoescaped "
               "template is escaped twice", c.lineno)
    # empty lines are not prefixed (documented): every `prefix + <line>` is evaluated only where the line is non-empty
    adds = []
    for idx, (fn_, _) in enumerate(unit):
        for n in ast.walk(fn_):
            if isinstance(n, ast.BinOp) and isinstance(n.op, ast.Add) and isinstance(n.left, ast.Name) and isinstance(n.right, ast.Name):
                oi, on = origin(idx, n.left.id)
                if oi == 0 and on in prefix_names:
                    adds.append((fn_, n))
    ok = bool(adds)
    for fn_, a in adds:
        pm = pyfront.parent_map(fn_)
        line = a.right.id
        par = pm.get(id(a))
        in_ifexp = isinstance(par, ast.IfExp) and par.body is a and ast.unparse(par.test) == line and ast.unparse(par.orelse) == line
        # ... or inside a local helper whose earlier branch returned the empty line unchanged
        encl = None
        cur = a
        while id(cur) in pm:
            cur = pm[id(cur)]
            if isinstance(cur, ast.FunctionDef):
                encl = cur
                break
        guarded = False
        if encl is not None:
            terms = pyfront.guard_terms(pyfront.guards_of(encl, a) or ())
            guarded = any((e == line and pol) or (e == f"not {line}" and not pol) or (e == f"len({line}) == 0" and not pol) for e, pol in terms)
        ok = ok and (in_ifexp or guarded)
    ctx.ob(R, ctx.rel(fpath), "do_lineprefix :: empty lines are left without prefix", ok, "", f.lineno)
    # confinement: the filter is Nunavut's addition.  It is reachable only through the filter table, under the one name that only the
    # marker path of the parser emits (R-C19-PARSER); a stock filter that calls it runs Nunavut's code for templates without any marker
    refs = []
    for fn_ in [n for n in ast.walk(ftree) if isinstance(n, ast.FunctionDef)]:
        for n in ast.walk(fn_):
            if isinstance(n, ast.Name) and n.id == "do_lineprefix" and isinstance(n.ctx, ast.Load):
                refs.append((fn_.name, n.lineno))
    ok = not refs
    ctx.ob(R, ctx.rel(fpath), "do_lineprefix :: reachable only through the filter table entry 'lineprefix'", ok,
           "" if ok else f"called from {sorted({r_[0] for r_ in refs})}: a stock filter now runs the auto-indent filter for templates that carry no marker "
           "(do_lineprefix re-splits its input and drops the final line terminator)", refs[0][1] if refs else f.lineno)


def rule_ext(ctx, px):
    R = "R-C19-EXT"
    ctx.rule(
        R,
        "JinjaAssert.parse yields a call block whose callback raises iff the expression is falsy and otherwise returns "
        "the (empty) caller; UseQuery.parse yields a plain nodes.If chain whose tests are the (negated) query call: both "
        "tags are ordinary conditionals over their argument",
    )
    m = px.module("nunavut.jinja.extensions")
    ja = px.cls("nunavut.jinja.extensions", "JinjaAssert")
    parse = ja.methods["parse"]
    rets = [r for r in ast.walk(parse.node) if isinstance(r, ast.Return)]
    pparam = [a.arg for a in parse.node.args.args if a.arg != "self"][0]
    # which statement kinds the compiler runs unconditionally: a visit_<Kind> method that consults require_output_check drops the
    # node at the top level of a template that extends another one (that is how child templates produce no text of their own)
    comp = ast.parse((ctx.src / "jinja" / "jinja2" / "compiler.py").read_text())
    visitors = {fn.name[len("visit_"):]: fn for fn in ast.walk(comp) if isinstance(fn, ast.FunctionDef) and fn.name.startswith("visit_")}
    dropped = {k for k, fn in visitors.items() if any(isinstance(a_, ast.Attribute) and a_.attr == "require_output_check" for a_ in ast.walk(fn))}
    if "Output" not in dropped or "CallBlock" not in visitors:
        raise AnalysisError("anchor missing: visit_Output / require_output_check in the bundled compiler")
    built = []      # (node class, constructor call) wrapping the _do_assert call
    for r in rets:
        for c in ast.walk(r.value):
            if isinstance(c, ast.Call) and isinstance(c.func, ast.Attribute) and isinstance(c.func.value, ast.Name) and c.func.value.id == "nodes" \
                    and any(isinstance(x, ast.Call) and ast.unparse(x.func) == "self.call_method" and x.args and isinstance(x.args[0], ast.Constant)
                            and x.args[0].value == "_do_assert" for a_ in c.args for x in ast.walk(a_)):
                built.append((c.func.attr, c))
    args_name = None
    kind = built[0][0] if len(built) == 1 else None
    ok = len(rets) == 1 and kind is not None and kind in visitors and kind not in dropped
    why = ""
    if len(rets) != 1 or kind is None:
        why = (ast.unparse(rets[0].value) if rets else "no return")
    elif not ok:
        why = (f"the tag is compiled to nodes.{kind}, which the compiler omits at the top level of a template that extends another "
               "(require_output_check): an assertion placed there is skipped although an `{% if %}` at the same place is evaluated")
    if kind is not None:
        c = built[0][1]
        cm = next(x for a_ in c.args for x in ast.walk(a_) if isinstance(x, ast.Call) and ast.unparse(x.func) == "self.call_method")
        if len(cm.args) == 2 and isinstance(cm.args[1], ast.Name):
            args_name = cm.args[1].id
        else:
            ok, why = False, "call_method('_do_assert', <args list>) expected"
        if kind == "CallBlock" and ok:
            empty = len(c.args) >= 4 and all((isinstance(x, (ast.List, ast.Tuple)) and not x.elts) or (isinstance(x, ast.Constant) and x.value == "") for x in c.args[1:4])
            if not empty:
                ok, why = False, "the call block is not empty"
    ctx.ob(R, m.rel, "JinjaAssert.parse :: compiles to a statement that runs wherever a conditional runs, bound to _do_assert", ok, why, parse.node.lineno)
    da = ja.methods["_do_assert"]
    dps = [a.arg for a in da.node.args.args if a.arg != "self"]
    if len(dps) < 2:
        raise AnalysisError("anchor changed: JinjaAssert._do_assert(expression, ...)")
    d_expr = dps[0]
    d_caller = "caller" if "caller" in dps else None
    raises = []
    returns = []
    for st, g in pyfront.walk_guarded(da.node.body):
        if isinstance(st, ast.Raise):
            raises.append(pyfront.guard_terms(g))
        if isinstance(st, ast.Return):
            returns.append((ast.unparse(st.value) if st.value else "None", pyfront.guard_terms(g)))
    ok = raises == [[(d_expr, False)]]
    ctx.ob(R, m.rel, "JinjaAssert._do_assert :: raises exactly when the expression is falsy", ok, f"raise guards: {raises}", da.node.lineno)
    if kind in (None, "CallBlock", "Output"):
        # what the callback returns is written into the document: it must be the (empty) caller body or an empty string
        ok = bool(returns) and all((v in ("''", '""') or (d_caller is not None and v == f"{d_caller}()")) and (t == [] or t == [(d_expr, True)]) for v, t in returns)
        ctx.ob(R, m.rel, "JinjaAssert._do_assert :: a passing assertion contributes no text", ok, f"returns: {returns}", da.node.lineno)
    else:
        ctx.ob(R, m.rel, "JinjaAssert._do_assert :: a passing assertion contributes no text", True, f"nodes.{kind} discards the value", da.node.lineno)
    first_arg = None
    for n in ast.walk(parse.node):
        if isinstance(n, ast.Assign) and isinstance(n.targets[0], ast.Name) and n.targets[0].id == args_name and isinstance(n.value, ast.List) and n.value.elts:
            first_arg = ast.unparse(n.value.elts[0])
    ctx.ob(R, m.rel, "JinjaAssert.parse :: the asserted value is the parsed expression", first_arg == f"{pparam}.parse_expression()", str(first_arg), parse.node.lineno)
    uq = px.cls("nunavut.jinja.extensions", "UseQuery")
    up = uq.methods["parse"]
    uparam = [a.arg for a in up.node.args.args if a.arg != "self"][0]
    # the view the rule reads: private methods called as statements spelled out, class-level constants spelled as their values
    consts = {}
    for st in uq.node.body:
        if isinstance(st, ast.Assign) and len(st.targets) == 1 and isinstance(st.targets[0], ast.Name):
            consts[st.targets[0].id] = st.value

    class _K(ast.NodeTransformer):
        def visit_Attribute(self, node):
            self.generic_visit(node)
            if isinstance(node.ctx, ast.Load) and isinstance(node.value, ast.Name) and node.value.id in ("self", "cls", uq.name) and node.attr in consts:
                return copy.deepcopy(consts[node.attr])
            return node
    upv = pyfront.inline_procedures(up.node, {}, suffix="", methods={k: v.node for k, v in uq.methods.items() if k != "parse"})
    upv = _K().visit(upv)
    ast.fix_missing_locations(upv)

    def single(name):
        vals = [n.value for n in ast.walk(upv) if isinstance(n, ast.Assign) and any(isinstance(t, ast.Name) and t.id == name for t in n.targets)]
        return vals[0] if len(vals) == 1 else None

    def through(e):
        return single(e.id) if isinstance(e, ast.Name) else e
    tests = [n for n in ast.walk(upv) if isinstance(n, ast.Assign) and any(isinstance(t, ast.Attribute) and t.attr == "test" for t in n.targets)]
    ifs = [c for c in ast.walk(upv) if isinstance(c, ast.Call) and ast.unparse(c.func).endswith("nodes.If")]
    ok = bool(ifs) and len(tests) == 1 and isinstance(tests[0].value, ast.Call) and ast.unparse(tests[0].value.func) == "self.call_method" \
        and len(tests[0].value.args) == 2 and not tests[0].value.keywords
    ctx.ob(R, m.rel, "UseQuery.parse :: builds nodes.If with the query call as test", ok, "", up.node.lineno)
    negate = None
    ok2 = False
    if ok:
        sel = through(tests[0].value.args[0])
        if isinstance(sel, ast.IfExp):
            ie = sel
            body = ie.body.value if isinstance(ie.body, ast.Constant) else None
            orelse = ie.orelse.value if isinstance(ie.orelse, ast.Constant) else None
            if isinstance(ie.test, ast.UnaryOp) and isinstance(ie.test.op, ast.Not) and isinstance(ie.test.operand, ast.Name):
                negate = ie.test.operand.id
                ok2 = (body, orelse) == ("_use_query", "_use_nquery")
            elif isinstance(ie.test, ast.Name):
                negate = ie.test.id
                ok2 = (body, orelse) == ("_use_nquery", "_use_query")
        elif isinstance(sel, ast.Subscript) and isinstance(sel.value, ast.Dict) and isinstance(sel.slice, ast.Name) \
                and all(isinstance(k_, ast.Constant) and isinstance(v_, ast.Constant) for k_, v_ in zip(sel.value.keys, sel.value.values)):
            # a table from the negation flag to the method name
            negate = sel.slice.id
            tab = {k_.value: v_.value for k_, v_ in zip(sel.value.keys, sel.value.values)}
            ok2 = len(tab) == 2 and tab.get(True) == "_use_nquery" and tab.get(False) == "_use_query" and all(isinstance(k_, bool) for k_ in tab)
        qargs = through(tests[0].value.args[1])
        ok3 = isinstance(qargs, ast.List) and bool(qargs.elts) and ast.unparse(qargs.elts[0]) == f"{uparam}.parse_expression()"
        ctx.ob(R, m.rel, "UseQuery.parse :: the query name is the parsed expression", ok3, "", up.node.lineno)
    ctx.ob(R, m.rel, "UseQuery.parse :: negated form selects _use_nquery", ok2, "", up.node.lineno)
    # negate state per tag
    tags = {}
    unknown = []
    for st, g in pyfront.walk_guarded(upv.body):
        if isinstance(st, ast.Assign) and any(isinstance(t_, ast.Name) and t_.id == negate for t_ in st.targets):
            v = st.value
            if isinstance(v, ast.Constant) and isinstance(v.value, bool):
                tags.setdefault(str(v.value), []).extend(e for e, p in pyfront.guard_terms(g) if p)
            elif isinstance(v, ast.Call) and isinstance(v.func, ast.Attribute) and v.func.attr == "test" and len(v.args) == 1 and isinstance(v.args[0], ast.Constant):
                # the flag is the tag test itself: set exactly for that tag
                tags.setdefault("True", []).append(ast.unparse(v))
            elif isinstance(v, ast.Call) and isinstance(v.func, ast.Name) and v.func.id == "next" and len(v.args) == 2 and isinstance(v.args[0], ast.GeneratorExp) \
                    and isinstance(v.args[1], ast.Constant) and v.args[1].value is None:
                # first entry of a literal (tag, flag) table whose tag the token is; None when it is none of them, which must leave
                ge = v.args[0]
                gen = ge.generators[0] if len(ge.generators) == 1 else None
                good = gen is not None and isinstance(gen.target, ast.Tuple) and len(gen.target.elts) == 2 and all(isinstance(x, ast.Name) for x in gen.target.elts) \
                    and isinstance(ge.elt, ast.Name) and ge.elt.id == gen.target.elts[1].id and len(gen.ifs) == 1 and isinstance(gen.ifs[0], ast.Call) \
                    and isinstance(gen.ifs[0].func, ast.Attribute) and gen.ifs[0].func.attr == "test" and len(gen.ifs[0].args) == 1 \
                    and isinstance(gen.ifs[0].args[0], ast.Name) and gen.ifs[0].args[0].id == gen.target.elts[0].id \
                    and isinstance(gen.iter, (ast.Tuple, ast.List)) and all(isinstance(r_, ast.Tuple) and len(r_.elts) == 2 and isinstance(r_.elts[0], ast.Constant)
                                                                              and isinstance(r_.elts[1], ast.Constant) and isinstance(r_.elts[1].value, bool) for r_ in gen.iter.elts)
                leaves = any(isinstance(i_, ast.If) and ast.unparse(i_.test) == f"{negate} is None" and pyfront._always_exits(i_.body) for i_ in ast.walk(upv))
                if good and leaves:
                    seen_tags = set()
                    for r_ in gen.iter.elts:
                        if r_.elts[0].value in seen_tags:
                            continue        # first match wins
                        seen_tags.add(r_.elts[0].value)
                        tags.setdefault(str(r_.elts[1].value), []).append(f"{ast.unparse(gen.ifs[0].func)}({r_.elts[0].value!r})")
                else:
                    unknown.append(ast.unparse(v))
            else:
                unknown.append(ast.unparse(v))
    ok = not unknown and any("ifnuses" in e for e in tags.get("True", [])) and any("elifnuses" in e for e in tags.get("True", [])) \
        and any("elifuses" in e for e in tags.get("False", [])) and not any("nuses" in e for e in tags.get("False", [])) \
        and not any("ifuses" in e for e in tags.get("True", []))
    ctx.ob(R, m.rel, "UseQuery.parse :: ifnuses/elifnuses negate, ifuses/elifuses do not", ok, str(tags) + (f" not understood: {unknown}" if unknown else ""), up.node.lineno)
    rets = [r for r in ast.walk(upv) if isinstance(r, ast.Return)]
    ok = len(rets) == 1 and isinstance(rets[0].value, ast.Name)
    if ok:
        rn_ = rets[0].value.id
        first_if = any(isinstance(n, ast.Assign) and any(isinstance(t, ast.Name) and t.id == rn_ for t in n.targets) and isinstance(n.value, ast.Call)
                       and ast.unparse(n.value.func).endswith("nodes.If") for n in ast.walk(up.node))
        chained = any(isinstance(c, ast.Call) and ast.unparse(c.func) == f"{rn_}.elif_.append" for c in ast.walk(up.node))
        ok = first_if and chained
    ctx.ob(R, m.rel, "UseQuery.parse :: returns the If chain", ok, "", up.node.lineno)
    q = uq.methods["_use_query"]
    nq = uq.methods["_use_nquery"]

    def passthrough(fn, e):
        ps_ = [a.arg for a in fn.node.args.args if a.arg != "self"]
        return isinstance(e, ast.Call) and ast.unparse(e.func) == "self._use_query_common" and [ast.unparse(a) for a in e.args] == ps_ and not e.keywords

    rq = [r.value for r in ast.walk(q.node) if isinstance(r, ast.Return)]
    rn = [r.value for r in ast.walk(nq.node) if isinstance(r, ast.Return)]
    ok = len(rq) == 1 and passthrough(q, rq[0]) and len(rn) == 1 and isinstance(rn[0], ast.UnaryOp) and isinstance(rn[0].op, ast.Not) and passthrough(nq, rn[0].operand)
    ctx.ob(R, m.rel, "UseQuery :: _use_nquery is exactly the negation of _use_query", ok, f"{[ast.unparse(x) for x in rq]} / {[ast.unparse(x) for x in rn]}", q.node.lineno)
    common = uq.methods["_use_query_common"]
    cps = [a.arg for a in common.node.args.args if a.arg != "self"]
    rc = [r.value for r in ast.walk(common.node) if isinstance(r, ast.Return)]
    ok = len(rc) == 1 and isinstance(rc[0], ast.Call) and isinstance(rc[0].func, ast.Name) and not rc[0].args
    if ok:
        src_vals = [n.value for n in ast.walk(common.node) if isinstance(n, ast.Assign) and any(isinstance(t, ast.Name) and t.id == rc[0].func.id for t in n.targets)]
        ok = len(src_vals) == 1 and any(isinstance(c, ast.Call) and isinstance(c.func, ast.Name) and c.func.id == "getattr" and len(c.args) >= 2
                                        and "target_language_uses_queries" in ast.unparse(c.args[0]) and ast.unparse(c.args[1]) == cps[0]
                                        for c in ast.walk(src_vals[0]))
    ctx.ob(R, m.rel, "UseQuery._use_query_common :: value is the language's uses-query result", ok, str([ast.unparse(x) for x in rc]), common.node.lineno)
    # the environment installs exactly do/loopcontrols + these two
    envb = px.cls("nunavut.jinja.environment", "CodeGenEnvironmentBuilder")
    dflt = None
    for st in envb.node.body:
        if isinstance(st, ast.Assign) and ast.unparse(st.targets[0]) == "DEFAULT_JINJA_EXTENSIONS":
            dflt = ast.unparse(st.value)
    ctx.ob(R, envb.module.rel, "CodeGenEnvironmentBuilder.DEFAULT_JINJA_EXTENSIONS", dflt == "[jinja_do, loopcontrols, JinjaAssert, UseQuery]", str(dflt))


def rule_engine_siblings(ctx):
    """R-C19-EXT, agreement between sibling implementations inside the bundled engine - what a template means must not depend on which
    of two code paths evaluates it:
    (1) constant folding (nodes.py `_binop_to_func`, `_uaop_to_func`, `_cmpop_to_func`) computes, for every operator key, the Python
        operation the compiler emits for that key (compiler.py `operators`, visit_<BinOp>) with the operands in source order - an
        expression over literals is folded at compile time, the same expression over variables runs the emitted code;
    (2) Context.get_all() and resolve_or_missing() agree on who wins a name that is both in the template's own variables (`vars`) and
        in the render context / globals (`parent`): the lookup asks vars first, so the merged view lets vars override parent - the
        merged view is what include / import-with-context hand to the other template."""
    R = "R-C19-EXT"
    ntree, npath = _parse_module(ctx, "jinja/jinja2/nodes.py")
    ctree, cpath = _parse_module(ctx, "jinja/jinja2/compiler.py")
    rtree, rpath = _parse_module(ctx, "jinja/jinja2/runtime.py")
    tables = {}
    for st in ntree.body:
        if isinstance(st, ast.Assign) and isinstance(st.targets[0], ast.Name) and st.targets[0].id in ("_binop_to_func", "_uaop_to_func", "_cmpop_to_func") and isinstance(st.value, ast.Dict):
            tables[st.targets[0].id] = st.value
    if len(tables) != 3:
        raise AnalysisError("anchor missing: the operator tables of nodes.py")
    emitted = next((st.value for st in ctree.body if isinstance(st, ast.Assign) and isinstance(st.targets[0], ast.Name) and st.targets[0].id == "operators" and isinstance(st.value, ast.Dict)), None)
    if emitted is None:
        raise AnalysisError("anchor missing: compiler.operators")
    PY_CMP = {"==": (ast.Eq, "eq"), "!=": (ast.NotEq, "ne"), ">": (ast.Gt, "gt"), ">=": (ast.GtE, "ge"), "<": (ast.Lt, "lt"), "<=": (ast.LtE, "le"),
              "in": (ast.In, None), "not in": (ast.NotIn, None)}
    PY_BIN = {"*": (ast.Mult, "mul"), "/": (ast.Div, "truediv"), "//": (ast.FloorDiv, "floordiv"), "**": (ast.Pow, "pow"), "%": (ast.Mod, "mod"),
              "+": (ast.Add, "add"), "-": (ast.Sub, "sub")}
    PY_UN = {"not": (ast.Not, "not_"), "+": (ast.UAdd, "pos"), "-": (ast.USub, "neg")}

    def fold_ok(fn, opcls, opname, arity):
        """is `fn` the function (a, b) -> a <op> b (operands in order)?"""
        if isinstance(fn, ast.Attribute) and isinstance(fn.value, ast.Name) and fn.value.id == "operator":
            return opname is not None and fn.attr == opname
        if isinstance(fn, ast.Lambda) and len(fn.args.args) == arity:
            ps = [a.arg for a in fn.args.args]
            b = fn.body
            if arity == 2 and isinstance(b, ast.Compare) and len(b.ops) == 1:
                return isinstance(b.ops[0], opcls) and ast.unparse(b.left) == ps[0] and ast.unparse(b.comparators[0]) == ps[1]
            # operator.contains(container, item) is `item in container`
            neg = isinstance(b, ast.UnaryOp) and isinstance(b.op, ast.Not)
            c_ = b.operand if neg else b
            if arity == 2 and isinstance(c_, ast.Call) and ast.unparse(c_.func) == "operator.contains" and len(c_.args) == 2 and opcls in (ast.In, ast.NotIn):
                return (opcls is ast.NotIn) == neg and ast.unparse(c_.args[0]) == ps[1] and ast.unparse(c_.args[1]) == ps[0]
            if arity == 2 and isinstance(b, ast.BinOp):
                return isinstance(b.op, opcls) and ast.unparse(b.left) == ps[0] and ast.unparse(b.right) == ps[1]
            if arity == 1 and isinstance(b, ast.UnaryOp):
                return isinstance(b.op, opcls) and ast.unparse(b.operand) == ps[0]
        return False

    n = 0
    em = {k.value: v.value for k, v in zip(emitted.keys, emitted.values) if isinstance(k, ast.Constant) and isinstance(v, ast.Constant)}
    for k, v in zip(tables["_cmpop_to_func"].keys, tables["_cmpop_to_func"].values):
        key = k.value if isinstance(k, ast.Constant) else None
        n += 1
        want = PY_CMP.get(em.get(key))
        ok = want is not None and fold_ok(v, want[0], want[1], 2)
        ctx.ob(R, ctx.rel(npath), f"nodes._cmpop_to_func[{key!r}] folds what the compiler emits for it (`a {em.get(key)} b`, operands in order)", ok,
               "" if ok else f"`{ast.unparse(v)}`: a comparison between literals is folded to a different result than the same comparison between variables gives at run time",
               v.lineno)
    ok = set(em) == {kk.value for kk in tables["_cmpop_to_func"].keys if isinstance(kk, ast.Constant)}
    ctx.ob(R, ctx.rel(npath), "nodes._cmpop_to_func and compiler.operators have the same keys", ok, "", tables["_cmpop_to_func"].lineno)
    for name, PY, arity in (("_binop_to_func", PY_BIN, 2), ("_uaop_to_func", PY_UN, 1)):
        for k, v in zip(tables[name].keys, tables[name].values):
            key = k.value if isinstance(k, ast.Constant) else None
            n += 1
            want = PY.get(key)
            ok = want is not None and fold_ok(v, want[0], want[1], arity)
            ctx.ob(R, ctx.rel(npath), f"nodes.{name}[{key!r}] is Python's `{key}`", ok, "" if ok else f"`{ast.unparse(v)}`", v.lineno)
    ctx.floor(R + ":fold-tables", n, 15)
    # (2) vars over parent, in the lookup and in the merged view
    rom = next((f for f in rtree.body if isinstance(f, ast.FunctionDef) and f.name == "resolve_or_missing"), None)
    ctxc = next((c for c in rtree.body if isinstance(c, ast.ClassDef) and c.name == "Context"), None)
    ga = next((f for f in (ctxc.body if ctxc else []) if isinstance(f, ast.FunctionDef) and f.name == "get_all"), None)
    if rom is None or ga is None:
        raise AnalysisError("anchor missing: runtime.resolve_or_missing / Context.get_all")
    cp = rom.args.args[0].arg
    order = [ast.unparse(st.test) for st in rom.body if isinstance(st, ast.If)]
    first = "vars" if order and order[0].endswith(f"{cp}.vars") else ("parent" if order and order[0].endswith(f"{cp}.parent") else None)
    ctx.ob(R, ctx.rel(rpath), "resolve_or_missing asks the template's own variables before the parent context", first == "vars", f"tests {order}", rom.lineno)

    def winner(e, env):
        """who overrides whom in a merged-dict expression: 'vars' | 'parent' | None"""
        e = env.get(e.id, e) if isinstance(e, ast.Name) else e
        if isinstance(e, ast.Call) and isinstance(e.func, ast.Name) and e.func.id == "dict" and len(e.args) == 1 and len(e.keywords) == 1 and e.keywords[0].arg is None:
            base, over = ast.unparse(e.args[0]), ast.unparse(e.keywords[0].value)
        elif isinstance(e, ast.Dict) and len(e.keys) == 2 and all(k is None for k in e.keys):
            base, over = ast.unparse(e.values[0]), ast.unparse(e.values[1])
        else:
            return None
        return "vars" if (base, over) == ("self.parent", "self.vars") else ("parent" if (base, over) == ("self.vars", "self.parent") else None)

    n_m = 0
    for path in pyfront.enumerate_paths(ga.body):
        if path.outcome != "return":
            continue
        r = path.stmts[-1]
        terms = pyfront.guard_terms([c_ for c_ in path.conds if not isinstance(c_[0], str)])
        if ("self.vars", False) in terms or ("self.parent", False) in terms:
            continue          # one side is empty: nothing to merge
        if ast.unparse(r.value) in ("self.vars", "self.parent", "self.vars or self.parent", "self.parent or self.vars"):
            both = ("self.vars", True) in terms and ("self.parent", True) in terms
            if both:
                n_m += 1
                ctx.ob(R, ctx.rel(rpath), "Context.get_all :: the template's own variables override the parent context in the merged view, as in the lookup", False,
                       f"`return {ast.unparse(r.value)}` where both sides have content: one of them is dropped", r.lineno)
            continue          # a single side handed out where the path does not establish that both have content
        n_m += 1
        env, upd = {}, {}
        for st in path.stmts[:-1]:
            if isinstance(st, ast.Assign) and len(st.targets) == 1 and isinstance(st.targets[0], ast.Name):
                env[st.targets[0].id] = st.value
            elif isinstance(st, ast.Expr) and isinstance(st.value, ast.Call) and isinstance(st.value.func, ast.Attribute) and st.value.func.attr == "update" \
                    and isinstance(st.value.func.value, ast.Name) and len(st.value.args) == 1:
                upd.setdefault(st.value.func.value.id, []).append(ast.unparse(st.value.args[0]))
        w = winner(r.value, env)
        if w is None and isinstance(r.value, ast.Name) and r.value.id in env and r.value.id in upd:
            base = env[r.value.id]
            base_t = ast.unparse(base.args[0]) if isinstance(base, ast.Call) and isinstance(base.func, ast.Name) and base.func.id == "dict" and len(base.args) == 1 and not base.keywords else ast.unparse(base)
            if base_t == "self.parent" and upd[r.value.id] == ["self.vars"]:
                w = "vars"
            elif base_t == "self.vars" and upd[r.value.id] == ["self.parent"]:
                w = "parent"
        ctx.ob(R, ctx.rel(rpath), "Context.get_all :: the template's own variables override the parent context in the merged view, as in the lookup", w == "vars",
               "" if w == "vars" else ("the parent context overrides the template's own variables: an included / imported-with-context template sees the render "
                                       "context's value of a name the including template has set" if w == "parent" else f"merge `{ast.unparse(r.value)}` not recognised"), r.lineno)
    ctx.floor(R + ":merged-view", n_m, 1)


def rule_compiler_scopes(ctx):
    """R-C19-EXT, two scoping facts of the stock compiler that unmarked templates can observe (read from the bundled compiler.py, helper
    methods followed in place):
    (1) `{% include ... ignore missing %}`: the generated `except TemplateNotFound: pass` closes the try around the *lookup* of the
        included template, and the rendering follows in the `else:` - a TemplateNotFound raised while the included template renders
        (its own include / import / extends of a missing template) propagates, as it does upstream;
    (2) a top-level `{% set %}` publishes every assigned name to context.vars - names with a leading underscore included; only the
        *exported* names are filtered."""
    R = "R-C19-EXT"
    tree, path = _parse_module(ctx, "jinja/jinja2/compiler.py")
    rel = ctx.rel(path)
    cls = next((c for c in ast.walk(tree) if isinstance(c, ast.ClassDef) and c.name == "CodeGenerator"), None)
    if cls is None:
        raise AnalysisError("anchor missing: jinja2.compiler.CodeGenerator")
    methods = {m.name: m for m in cls.body if isinstance(m, ast.FunctionDef)}

    def emissions(fn, depth=0, seen=()):
        """string literals handed to write / writeline in source order (format operands dropped), private emitters expanded in place"""
        out = []

        def lit(e):
            if isinstance(e, ast.Constant) and isinstance(e.value, str):
                return e.value
            if isinstance(e, ast.BinOp) and isinstance(e.op, ast.Mod):
                return lit(e.left)
            if isinstance(e, ast.JoinedStr):
                return "".join(v.value if isinstance(v, ast.Constant) else "%s" for v in e.values)
            return None

        class V(ast.NodeVisitor):
            def visit_Call(self, c):
                for a in c.args:
                    self.visit(a)
                if isinstance(c.func, ast.Attribute) and isinstance(c.func.value, ast.Name) and c.func.value.id == "self":
                    if c.func.attr in ("write", "writeline") and c.args:
                        t_ = lit(c.args[0])
                        if t_ is not None:
                            out.append((t_, c.lineno))
                    elif c.func.attr.startswith("_") and c.func.attr in methods and c.func.attr not in seen and depth < 3:
                        out.extend(emissions(methods[c.func.attr], depth + 1, seen + (c.func.attr,)))
        for st in fn.body:
            V().visit(st)
        return out

    vi = methods.get("visit_Include")
    if vi is None:
        raise AnalysisError("anchor missing: CodeGenerator.visit_Include")
    # path by path, for the paths on which `ignore missing` was given
    class _Stub:
        def __init__(self, body):
            self.body = body
    n_paths, bad_line = 0, None
    for path in pyfront.enumerate_paths(vi.body):
        terms = path.terms()
        if any((e == "node.ignore_missing" and not pol) or (e == "not node.ignore_missing" and pol) for e, pol in terms):
            continue
        simple = [st for st in path.stmts if not isinstance(st, ast.If)]
        em = emissions(_Stub(simple))
        texts = [t_ for t_, _l in em]
        exc = next((i for i, t_ in enumerate(texts) if t_.startswith("except TemplateNotFound")), None)
        els = next((i for i, t_ in enumerate(texts) if t_.strip() == "else:"), None)
        rend = [i for i, t_ in enumerate(texts) if "root_render_func" in t_ or "_body_stream" in t_]
        if exc is None or not rend:
            continue
        n_paths += 1
        if not (exc < min(rend) and els is not None and exc < els < min(rend)):
            bad_line = em[exc][1]
    if n_paths == 0:
        raise AnalysisError("anchor missing: the ignore-missing handler / the render loop emitted by visit_Include")
    ok = bad_line is None
    ctx.ob(R, rel, "compiler.visit_Include :: `ignore missing` swallows a TemplateNotFound of the lookup only (try / except / else around get_template)", ok,
           "" if ok else "the handler is emitted after the code that renders the included template: a template that exists but itself includes, imports or extends a missing one "
           "is silently rendered as truncated output instead of raising as upstream does", bad_line)
    pa = methods.get("pop_assign_tracking")
    if pa is None:
        raise AnalysisError("anchor missing: CodeGenerator.pop_assign_tracking")
    popped = {t_.id for n_ in ast.walk(pa) if isinstance(n_, ast.Assign) and "_assign_stack.pop()" in ast.unparse(n_.value) for t_ in n_.targets if isinstance(t_, ast.Name)}
    if not popped:
        raise AnalysisError("anchor missing: the popped name set in pop_assign_tracking")
    # where the entries of context.vars are produced: a loop / comprehension whose element text is '%r: %s'
    sources = []
    for n_ in ast.walk(pa):
        if isinstance(n_, ast.For) and any(isinstance(c_, ast.Constant) and isinstance(c_.value, str) and "%r: %s" in c_.value for c_ in ast.walk(n_)):
            it = n_.iter
            if isinstance(it, ast.Call) and isinstance(it.func, ast.Name) and it.func.id == "enumerate" and it.args:
                it = it.args[0]
            sources.append((ast.unparse(it), n_.lineno))
        if isinstance(n_, (ast.GeneratorExp, ast.ListComp)) and any(isinstance(c_, ast.Constant) and isinstance(c_.value, str) and "%r: %s" in c_.value for c_ in ast.walk(n_.elt)):
            sources.append((ast.unparse(n_.generators[0].iter), n_.lineno))
    if not sources:
        raise AnalysisError("anchor missing: construction of the context.vars update in pop_assign_tracking")
    def complete(e, depth=0):
        """does the expression range over every popped name (no filter on the way)?"""
        if depth > 4:
            return False
        if isinstance(e, ast.Name):
            if e.id in popped:
                return True
            asg = [n_.value for n_ in ast.walk(pa) if isinstance(n_, ast.Assign) and any(isinstance(t_, ast.Name) and t_.id == e.id for t_ in n_.targets)]
            return len(asg) == 1 and complete(asg[0], depth + 1)
        if isinstance(e, ast.Call) and isinstance(e.func, ast.Name) and e.func.id in ("sorted", "list", "tuple", "enumerate", "iter", "iteritems") and e.args:
            return complete(e.args[0], depth + 1)
        if isinstance(e, (ast.ListComp, ast.GeneratorExp)) and len(e.generators) == 1 and not e.generators[0].ifs:
            return complete(e.generators[0].iter, depth + 1)
        return False
    ok = all(complete(ast.parse(src, mode="eval").body) for src, _l in sources)
    ctx.ob(R, rel, "compiler.pop_assign_tracking :: every assigned top-level name is published to context.vars", ok,
           "" if ok else f"the entries are taken from {[s_ for s_, _ in sources]} instead of the complete set {sorted(popped)}: names with a leading underscore set by a tuple "
           "assignment are not visible to blocks, includes and imports with context, as they are upstream", sources[0][1])


def run(ctx):
    ctx.explanation = (
        "C19 is decided as confinement of Nunavut's modifications: the regex ASTs of the lexer's *_begin alternatives "
        "show that every non-stock alternative needs the literal `*` after the start string; the parser reaches "
        "autoindent()/lineprefix only under token.value.endswith('*'); the assert / ifuses extensions are built as "
        "ordinary conditionals.  Rendering equivalence with upstream Jinja2 on all templates is not established (the "
        "upstream 2.11 snapshot named in subtree.json is not available offline)."
    )
    ctx.declined = ["equivalence with upstream Jinja2 on all templates (no upstream snapshot offline; 3.1.6 is structured differently)",
                    "the rendering of marked constructs (value-level behaviour of do_lineprefix for all texts)"]
    px = pyfront.PyIndex(ctx.root)
    rule_lexer(ctx)
    rule_parser(ctx)
    rule_lineprefix(ctx)
    rule_ext(ctx, px)
    rule_compiler_scopes(ctx)
    rule_engine_siblings(ctx)
