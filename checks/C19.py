"""
C19 - the bundled template engine is a conservative extension of stock Jinja2.
Static: confinement of Nunavut's lexer/parser modifications to the `*` marker; shape of the two extensions.
"""
import ast
import re

try:
    import re._parser as sre_parse
    import re._constants as sre_c
except ImportError:  # pragma: no cover
    import sre_parse  # type: ignore
    import sre_constants as sre_c  # type: ignore

from nvsa import pyfront
from nvsa.report import AnalysisError

B = "\u0001"  # stands for the (escaped) start string in the format strings


def _parse_module(ctx, rel):
    p = ctx.src / rel
    if not p.exists():
        raise AnalysisError(f"anchor missing: {rel}")
    return ast.parse(p.read_text(encoding="utf-8"), filename=str(p)), p


def _alts(parsed):
    """top-level alternatives of a parsed (sub)pattern: list of op sequences"""
    items = list(parsed)
    if len(items) == 1 and items[0][0] is sre_c.BRANCH:
        return [list(a) for a in items[0][1][1]]
    return [items]


def _is_lit(op, ch):
    return op[0] is sre_c.LITERAL and op[1] == ord(ch)


def _stock(alt):
    """stock forms:  B   |   \\s* B -   """
    if len(alt) == 1 and _is_lit(alt[0], B):
        return True
    if len(alt) == 3 and alt[0][0] in (sre_c.MAX_REPEAT, sre_c.MIN_REPEAT) and _is_lit(alt[1], B) and _is_lit(alt[2], "-"):
        rep = alt[0][1]
        inner = list(rep[2])
        return rep[0] == 0 and len(inner) == 1 and inner[0][0] is sre_c.IN and any(
            x[0] is sre_c.CATEGORY and x[1] is sre_c.CATEGORY_SPACE for x in inner[0][1])
    return False


def _star_confined(alt):
    """non-stock alternative: the start string must be followed immediately by a mandatory literal '*'"""
    for i, op in enumerate(alt):
        if _is_lit(op, B):
            return i + 1 < len(alt) and _is_lit(alt[i + 1], "*")
    return False


def rule_lexer(ctx):
    R = "R-C19-LEXER"
    ctx.rule(
        R,
        "in the root lexing rule every alternative of the *_begin groups that is not of a stock form (`START` or "
        "`\\s*START-`) requires the literal `*` immediately after the start string, so input without `{%*` / `{{*` "
        "can never take a modified alternative",
    )
    tree, path = _parse_module(ctx, "jinja/jinja2/lexer.py")
    fmt_strings = []
    for n in ast.walk(tree):
        if isinstance(n, ast.Constant) and isinstance(n.value, str) and "_begin>" in n.value:
            fmt_strings.append(n)
    if len(fmt_strings) < 2:
        raise AnalysisError("anchor missing: *_begin format strings in lexer.py")
    rel = ctx.rel(path)
    n_alt = 0
    for c in fmt_strings:
        s = c.value.replace("%s", B, )
        # the group name placeholder (?P<%s_begin> became (?P<\x01_begin>: give it a legal name
        s = s.replace("(?P<" + B + "_begin>", "(?P<x_begin>")
        try:
            parsed = sre_parse.parse(s)
        except Exception as e:
            raise AnalysisError(f"cannot parse lexer format string at line {c.lineno}: {e}")
        # descend: the named group is the first SUBPATTERN
        groups = [op for op in parsed if op[0] is sre_c.SUBPATTERN]
        if not groups:
            raise AnalysisError(f"no group in lexer format string at line {c.lineno}")
        body = groups[0][1][3]
        alts = _alts(body)
        # raw_begin: the alternatives live in the leading non-capturing group
        if len(alts) == 1:
            first = alts[0][0]
            if first[0] is sre_c.SUBPATTERN:
                alts = _alts(first[1][3])
            elif first[0] is sre_c.BRANCH:
                alts = [list(a) for a in first[1][1]]
        name = "raw_begin" if "raw_begin" in c.value else "<tag>_begin"
        for i, alt in enumerate(alts):
            n_alt += 1
            desc = _describe(alt)
            if _stock(alt):
                ctx.ob(R, rel, f"{name} alternative #{i + 1} `{desc}`", True, "stock form", c.lineno)
            else:
                ok = _star_confined(alt)
                ctx.ob(R, rel, f"{name} alternative #{i + 1} `{desc}`", ok,
                       "requires the `*` marker" if ok else
                       "non-stock alternative can match a start string that is not followed by `*`: ordinary templates lex differently from stock Jinja2",
                       c.lineno)
    ctx.floor(R, n_alt, 6)
    _lexer_slots(ctx, R, tree, rel)
    _lexer_cache_key(ctx, R, tree, rel)


def _lexer_cache_key(ctx, R, tree, rel):
    """lexers are shared between environments through a cache: the key must contain every environment attribute that the Lexer
    constructor (and the rule compiler it calls) reads, or an environment gets a lexer built for other settings"""
    fns = {n.name: n for n in ast.walk(tree) if isinstance(n, ast.FunctionDef)}
    gl = fns.get("get_lexer")
    lexer_cls = next((n for n in tree.body if isinstance(n, ast.ClassDef) and n.name == "Lexer"), None)
    if gl is None or lexer_cls is None:
        raise AnalysisError("anchor missing: get_lexer / Lexer in lexer.py")
    env_param = gl.args.args[0].arg
    init = next((n for n in lexer_cls.body if isinstance(n, ast.FunctionDef) and n.name == "__init__"), None)
    if init is None:
        raise AnalysisError("anchor missing: Lexer.__init__")
    iparam = init.args.args[1].arg

    def env_reads(fn, pname, depth=0):
        out = set()
        for n in ast.walk(fn):
            if isinstance(n, ast.Attribute) and isinstance(n.value, ast.Name) and n.value.id == pname:
                out.add(n.attr)
            if isinstance(n, ast.Call) and isinstance(n.func, ast.Name) and n.func.id in fns and depth < 2:
                for i, a in enumerate(n.args):
                    if isinstance(a, ast.Name) and a.id == pname and i < len(fns[n.func.id].args.args):
                        out |= env_reads(fns[n.func.id], fns[n.func.id].args.args[i].arg, depth + 1)
        return out
    reads = env_reads(init, iparam)
    # the key: a tuple of environment attributes, or getattr over a constant tuple of names
    key_attrs = set()
    consts = {t.id: n.value for n in tree.body if isinstance(n, ast.Assign) and isinstance(n.value, (ast.Tuple, ast.List)) for t in n.targets if isinstance(t, ast.Name)}
    key_node = None
    for n in ast.walk(gl):
        if isinstance(n, ast.Assign) and isinstance(n.targets[0], ast.Name) and any(
                isinstance(c, ast.Call) and isinstance(c.func, ast.Attribute) and c.func.attr in ("get", "setdefault") and c.args and ast.unparse(c.args[0]) == n.targets[0].id
                for c in ast.walk(gl)):
            key_node = n.value
    if key_node is None:
        raise AnalysisError("anchor missing: cache key of get_lexer")
    for n in ast.walk(key_node):
        if isinstance(n, ast.Attribute) and isinstance(n.value, ast.Name) and n.value.id == env_param:
            key_attrs.add(n.attr)
        if isinstance(n, ast.Call) and isinstance(n.func, ast.Name) and n.func.id == "getattr" and len(n.args) >= 2 and ast.unparse(n.args[0]) == env_param:
            a1 = n.args[1]
            if isinstance(a1, ast.Constant):
                key_attrs.add(a1.value)
            elif isinstance(a1, ast.Name):
                # name iterates a constant tuple (comprehension / generator)
                for comp in ast.walk(key_node):
                    if isinstance(comp, ast.comprehension) and isinstance(comp.target, ast.Name) and comp.target.id == a1.id:
                        it = comp.iter
                        it = consts.get(it.id) if isinstance(it, ast.Name) else it
                        if isinstance(it, (ast.Tuple, ast.List)):
                            key_attrs |= {e.value for e in it.elts if isinstance(e, ast.Constant)}
    ctx.unit("lexer_environment_reads", sorted(reads))
    missing = sorted(reads - key_attrs)
    ok = bool(reads) and not missing
    ctx.ob(R, rel, f"get_lexer :: the cache key covers the {len(reads)} environment attributes the Lexer is built from", ok,
           "" if ok else f"{missing} shape the lexer but are not part of the key: a second environment that differs only there is handed the first one's lexer "
           "(ordinary templates are then lexed differently from stock Jinja2)", gl.lineno)


def _lexer_slots(ctx, R, tree, rel):
    """Which expression fills each start-string slot of the opener regexes: the bare (unmarked, no `-`) alternative of every
    block opener - `{% raw %}`, `{% endraw %}`, every `<tag>_begin` - takes the lstrip-aware prefix expression, the `-` and `*`
    alternatives take the plain escaped start string.  (With lstrip_blocks off both are the same string.)"""
    init = None
    for n in ast.walk(tree):
        if isinstance(n, ast.ClassDef) and n.name == "Lexer":
            for f in n.body:
                if isinstance(f, ast.FunctionDef) and f.name == "__init__":
                    init = f
    if init is None:
        raise AnalysisError("anchor missing: Lexer.__init__")
    asg = {}
    for n in ast.walk(init):
        if isinstance(n, ast.Assign) and len(n.targets) == 1 and isinstance(n.targets[0], ast.Name):
            asg.setdefault(n.targets[0].id, []).append(n.value)

    rule_start_names = set()   # `for n, r in root_tag_rules`: r is the escaped start string of tag kind n (compile_rules)
    for comp in ast.walk(init):
        if isinstance(comp, (ast.ListComp, ast.GeneratorExp)):
            for g in comp.generators:
                if isinstance(g.target, ast.Tuple) and len(g.target.elts) == 2 and all(isinstance(x, ast.Name) for x in g.target.elts) \
                        and (ast.unparse(g.iter) == "root_tag_rules" or ast.unparse(g.iter).startswith("compile_rules(")):
                    rule_start_names.add(g.target.elts[1].id)

    def is_plain_start(e, depth=0):
        if isinstance(e, ast.Name) and e.id in rule_start_names:
            return True
        if isinstance(e, ast.Call) and isinstance(e.func, ast.Name) and e.args and ast.unparse(e.args[0]).endswith(".block_start_string"):
            return True
        if isinstance(e, ast.Name) and e.id in asg and depth < 3:
            return all(is_plain_start(v, depth + 1) for v in asg[e.id])
        if isinstance(e, ast.BinOp) and isinstance(e.op, ast.Mod) and isinstance(e.left, ast.Constant) and e.left.value == "%s":
            return is_plain_start(e.right, depth + 1)
        return False

    def is_prefix(e):
        if isinstance(e, ast.Call) and isinstance(e.func, ast.Attribute) and e.func.attr == "get" and "prefix_re" in ast.unparse(e.func.value):
            return True
        if isinstance(e, ast.Name) and e.id in asg:
            vals = asg[e.id]
            # assigned on both arms of the lstrip_blocks test: once with the lstrip pattern, once as the plain start string
            return any("lstrip_re" in ast.unparse(v) for v in vals) and any(is_plain_start(v) for v in vals)
        return False

    n = 0
    for b in ast.walk(init):
        if not (isinstance(b, ast.BinOp) and isinstance(b.op, ast.Mod) and isinstance(b.left, ast.Constant) and isinstance(b.left.value, str)):
            continue
        fmt = b.left.value
        if not ("_begin>" in fmt or "endraw" in fmt):
            continue
        args = list(b.right.elts) if isinstance(b.right, ast.Tuple) else [b.right]
        pos = [m.start() for m in re.finditer("%s", fmt)]
        if len(pos) != len(args):
            continue
        key = re.search(r"\\s\*(raw|endraw)\\s\*", fmt)
        opener_end = key.start() if key else len(fmt)
        what = (key.group(1) if key else "<tag>_begin")
        for i, (p0, a) in enumerate(zip(pos, args)):
            after = fmt[p0 + 2:p0 + 4]
            if fmt[p0 + 2:].startswith("_begin>") or p0 > opener_end:
                continue   # the group name / closing delimiters
            n += 1
            if after in ("\\-", "\\*"):
                ok = is_plain_start(a)
                ctx.ob(R, rel, f"{what}: the `{after[1]}` alternative is built on the plain start string", ok, "" if ok else f"slot filled with `{ast.unparse(a)}`", b.lineno)
            else:
                ok = is_prefix(a)
                ctx.ob(R, rel, f"{what}: the unmarked alternative is built on the lstrip-aware prefix", ok,
                       "" if ok else f"slot filled with `{ast.unparse(a)}`: with lstrip_blocks the indentation before this tag is no longer stripped "
                       "(its sibling openers use block_prefix_re) - ordinary templates lex differently from stock Jinja2", b.lineno)
    ctx.floor(R + ":slots", n, 6)


def _describe(alt):
    out = []
    for op in alt:
        if op[0] is sre_c.LITERAL:
            out.append("START" if op[1] == ord(B) else chr(op[1]))
        elif op[0] in (sre_c.MAX_REPEAT, sre_c.MIN_REPEAT):
            lo, hi = op[1][0], op[1][1]
            out.append("[..]" + ("*" if (lo, str(hi)) == (0, "MAXREPEAT") else ("?" if (lo, hi) == (0, 1) else f"{{{lo},{hi}}}")))
        else:
            out.append(str(op[0]).lower())
    return " ".join(out)


def rule_parser(ctx):
    R = "R-C19-PARSER"
    ctx.rule(
        R,
        "autoindent() is called only under `token.value.endswith('*')`; the lineprefix filter node is constructed only "
        "inside autoindent; the unmarked branches append / extend the parsed statement and add the expression unchanged",
    )
    tree, path = _parse_module(ctx, "jinja/jinja2/parser.py")
    rel = ctx.rel(path)
    sub = None
    for n in ast.walk(tree):
        if isinstance(n, ast.FunctionDef) and n.name == "subparse":
            sub = n
    if sub is None:
        raise AnalysisError("anchor missing: Parser.subparse")
    calls = [c for c in ast.walk(sub) if isinstance(c, ast.Call) and isinstance(c.func, ast.Name) and c.func.id == "autoindent"]
    if not calls:
        raise AnalysisError("anchor missing: autoindent() calls in subparse")
    # the marker test: `token.value.endswith('*')`, possibly wrapped in a local predicate function
    marker_fns = {f_.name for f_ in ast.walk(sub) if isinstance(f_, ast.FunctionDef) and f_ is not sub and len(f_.args.args) == 1 and any(
        isinstance(r, ast.Return) and r.value is not None and f"{f_.args.args[0].arg}.value.endswith('*')" in ast.unparse(r.value) for r in ast.walk(f_))}

    def is_marker(e):
        return e == "token.value.endswith('*')" or any(e == f"{mf}(token)" for mf in marker_fns)

    for c in calls:
        g = pyfront.guards_of(sub, c) or ()
        terms = pyfront.guard_terms(g)
        ok = any(is_marker(e) and pol for e, pol in terms)
        ctx.ob(R, rel, f"subparse :: autoindent() call at `{ast.unparse(pyfront.enclosing_stmt(c, pyfront.parent_map(sub)))[:60]}`", ok,
               "" if ok else f"autoindent applied under {terms}: unmarked constructs are wrapped in lineprefix", c.lineno)
    # lineprefix nodes only inside autoindent
    for n in ast.walk(tree):
        if isinstance(n, ast.Constant) and n.value == "lineprefix":
            # find enclosing function
            encl = None
            for f in ast.walk(tree):
                if isinstance(f, ast.FunctionDef) and any(x is n for x in ast.walk(f)):
                    if encl is None or any(x is f for x in ast.walk(encl)):
                        encl = f
            ok = encl is not None and encl.name == "autoindent"
            ctx.ob(R, rel, f"'lineprefix' node built in {encl.name if encl else '?'}", ok,
                   "" if ok else "lineprefix filter nodes are created outside autoindent", n.lineno)
    # the prefix handed to lineprefix is the token text in front of the three marker characters (`{{*` / `{%*`)
    ai = next((f_ for f_ in ast.walk(sub) if isinstance(f_, ast.FunctionDef) and f_.name == "autoindent"), None)
    if ai is None:
        raise AnalysisError("anchor missing: autoindent() in subparse")
    tokp = ai.args.args[1].arg if len(ai.args.args) > 1 else "token"
    consts = [c for c in ast.walk(ai) if isinstance(c, ast.Call) and ast.unparse(c.func) == "nodes.Const" and c.args]
    args = {ast.unparse(pyfront.subst_locals(ai, c.args[0])) for c in consts}
    ok = args == {f"{tokp}.value[:-3]"}
    ctx.ob(R, rel, "subparse :: the line prefix is the marker token without its three marker characters", ok,
           "" if ok else f"prefix expressions: {sorted(args)}: the prefix would keep part of the delimiter or lose indentation", ai.lineno)
    # unmarked branches
    src_terms = []
    for st, g in pyfront.walk_guarded(sub.body, (), descend_funcs=False):
        if isinstance(st, ast.Expr) and isinstance(st.value, ast.Call):
            t = ast.unparse(st.value)
            if t in ("body.extend(rv)", "body.append(rv)", "add_data(rv)"):
                src_terms.append((t, pyfront.guard_terms(g)))
    have = {t for t, _ in src_terms}
    ok = "add_data(rv)" in have and bool({"body.extend(rv)", "body.append(rv)"} & have)
    ctx.ob(R, rel, "subparse :: unmarked statements/expressions are added unchanged", ok, f"found {sorted(have)}", sub.lineno)
    for t, terms in src_terms:
        if t.startswith("body."):
            ok = any((is_marker(e) or "endswith('*')" in e) and not p for e, p in terms)
            ctx.ob(R, rel, f"subparse :: `{t}` is the not-marked branch", ok, f"guards {terms}", sub.lineno)
            if t == "body.append(rv)":
                # a statement that parses to a list of nodes is spliced, not nested: append only under `not isinstance(rv, list)`
                ok = any(e == "isinstance(rv, list)" and not p for e, p in terms)
                ctx.ob(R, rel, "subparse :: a single node is appended, a node list is spliced", ok, f"guards {terms}", sub.lineno)
    # the filter implementation exists and only prefixes non-empty lines... (shape: uses the given prefix only)
    ftree, fpath = _parse_module(ctx, "jinja/jinja2/filters.py")
    dl = [n for n in ast.walk(ftree) if isinstance(n, ast.FunctionDef) and n.name == "do_lineprefix"]
    ctx.ob(R, ctx.rel(fpath), "do_lineprefix exists (registered only under the new name 'lineprefix')", len(dl) == 1, "")
    regs = [n for n in ast.walk(ftree) if isinstance(n, ast.Dict) and any(isinstance(k, ast.Constant) and k.value == "lineprefix" for k in n.keys)]
    if regs:
        d = regs[0]
        names = [k.value for k in d.keys if isinstance(k, ast.Constant)]
        vals = {k.value: ast.unparse(v) for k, v in zip(d.keys, d.values) if isinstance(k, ast.Constant)}
        only = [k for k, v in vals.items() if v == "do_lineprefix"]
        ctx.ob(R, ctx.rel(fpath), "do_lineprefix replaces no stock filter", only == ["lineprefix"], f"registered as {only}")


def rule_lineprefix(ctx):
    R = "R-C19-LINEPREFIX"
    ctx.rule(
        R,
        "do_lineprefix only adds the prefix: it must keep every line terminator of its input (split with keepends, or "
        "substitute at line starts) - splitting without keepends and re-joining with a fixed newline normalises CRLF "
        "and drops a trailing terminator, so a marked construct no longer renders as the plain construct prefixed",
    )
    ftree, fpath = _parse_module(ctx, "jinja/jinja2/filters.py")
    dl = [n for n in ast.walk(ftree) if isinstance(n, ast.FunctionDef) and n.name == "do_lineprefix"]
    if len(dl) != 1:
        raise AnalysisError("anchor missing: do_lineprefix")
    f = dl[0]
    splits = [c for c in ast.walk(f) if isinstance(c, ast.Call) and isinstance(c.func, ast.Attribute) and c.func.attr in ("splitlines", "split")]
    lossy = []
    for c in splits:
        if c.func.attr == "splitlines":
            keep = (c.args and isinstance(c.args[0], ast.Constant) and bool(c.args[0].value)) or any(
                k.arg == "keepends" and isinstance(k.value, ast.Constant) and bool(k.value.value) for k in c.keywords)
            if not keep:
                lossy.append(ast.unparse(c))
        else:
            lossy.append(ast.unparse(c))
    joins = [c for c in ast.walk(f) if isinstance(c, ast.Call) and isinstance(c.func, ast.Attribute) and c.func.attr == "join"]
    ok = not (lossy and joins)
    ctx.ob(R, ctx.rel(fpath), "do_lineprefix :: line terminators are preserved", ok,
           "" if ok else f"{lossy[0]} discards the terminators and the lines are re-joined with a fixed newline: "
           "`{{* v }}` with v='a\\nb\\n' renders 'a\\n  b' (trailing newline lost), v='a\\r\\nb' loses the CR", f.lineno)
    # a Markup input gives a Markup result (stock filters keep safe strings safe): the string that joins the lines is Markup
    # whenever the input is - str.join of Markup pieces returns a plain str, which autoescaping then escapes a second time
    sparam = f.args.args[0].arg
    markup_names = set()
    for st, gd in pyfront.walk_guarded(f.body, ()):
        if isinstance(st, ast.Assign) and any(e == f"isinstance({sparam}, Markup)" and pol for e, pol in pyfront.guard_terms(gd)):
            tg, vals = st.targets[0], st.value
            pairs = list(zip(tg.elts, vals.elts)) if isinstance(tg, ast.Tuple) and isinstance(vals, ast.Tuple) else [(tg, vals)]
            for t_, v_ in pairs:
                if isinstance(t_, ast.Name) and isinstance(v_, ast.Call) and ast.unparse(v_.func) == "Markup":
                    markup_names.add(t_.id)
    for c in joins:
        recv = c.func.value
        ok = (isinstance(recv, ast.Name) and recv.id in markup_names) or (isinstance(recv, ast.Call) and ast.unparse(recv.func) in ("Markup", f"type({sparam})"))
        ctx.ob(R, ctx.rel(fpath), "do_lineprefix :: a safe (Markup) value stays safe: the joining newline is Markup when the input is", ok,
               "" if ok else f"lines are joined with `{ast.unparse(recv)}`: for a Markup input the result is a plain str, and `{{{{* macro() }}}}` in an autoescaped "
               "template is escaped twice", c.lineno)
    # empty lines are not prefixed (documented): every `prefix + <line>` is evaluated only where the line is non-empty
    pparam = f.args.args[1].arg
    pm = pyfront.parent_map(f)
    adds = [n for n in ast.walk(f) if isinstance(n, ast.BinOp) and isinstance(n.op, ast.Add) and isinstance(n.left, ast.Name) and n.left.id == pparam and isinstance(n.right, ast.Name)]
    ok = bool(adds)
    for a in adds:
        line = a.right.id
        par = pm.get(id(a))
        in_ifexp = isinstance(par, ast.IfExp) and par.body is a and ast.unparse(par.test) == line and ast.unparse(par.orelse) == line
        # ... or inside a local helper whose earlier branch returned the empty line unchanged
        encl = None
        cur = a
        while id(cur) in pm:
            cur = pm[id(cur)]
            if isinstance(cur, ast.FunctionDef):
                encl = cur
                break
        guarded = False
        if encl is not None:
            terms = pyfront.guard_terms(pyfront.guards_of(encl, a) or ())
            guarded = any((e == line and pol) or (e == f"not {line}" and not pol) or (e == f"len({line}) == 0" and not pol) for e, pol in terms)
        ok = ok and (in_ifexp or guarded)
    ctx.ob(R, ctx.rel(fpath), "do_lineprefix :: empty lines are left without prefix", ok, "", f.lineno)


def rule_ext(ctx, px):
    R = "R-C19-EXT"
    ctx.rule(
        R,
        "JinjaAssert.parse yields a call block whose callback raises iff the expression is falsy and otherwise returns "
        "the (empty) caller; UseQuery.parse yields a plain nodes.If chain whose tests are the (negated) query call: both "
        "tags are ordinary conditionals over their argument",
    )
    m = px.module("nunavut.jinja.extensions")
    ja = px.cls("nunavut.jinja.extensions", "JinjaAssert")
    parse = ja.methods["parse"]
    rets = [r for r in ast.walk(parse.node) if isinstance(r, ast.Return)]
    pparam = [a.arg for a in parse.node.args.args if a.arg != "self"][0]
    cb = [c for r in rets for c in ast.walk(r.value) if isinstance(c, ast.Call) and ast.unparse(c.func).endswith("CallBlock")]
    ok = len(rets) == 1 and len(cb) == 1 and len(cb[0].args) >= 3
    args_name = None
    if ok:
        c0 = cb[0].args[0]
        ok = isinstance(c0, ast.Call) and ast.unparse(c0.func) == "self.call_method" and len(c0.args) == 2 and isinstance(c0.args[0], ast.Constant) \
            and c0.args[0].value == "_do_assert" and isinstance(c0.args[1], ast.Name) \
            and all(isinstance(x, (ast.List, ast.Tuple)) and not x.elts for x in cb[0].args[1:3])
        if ok:
            args_name = c0.args[1].id
    ctx.ob(R, m.rel, "JinjaAssert.parse :: returns an empty CallBlock bound to _do_assert", ok, "" if ok else ast.unparse(rets[0].value) if rets else "no return", parse.node.lineno)
    da = ja.methods["_do_assert"]
    dps = [a.arg for a in da.node.args.args if a.arg != "self"]
    if len(dps) < 3:
        raise AnalysisError("anchor changed: JinjaAssert._do_assert(expression, message, caller)")
    d_expr, d_caller = dps[0], dps[-1]
    raises = []
    returns = []
    for st, g in pyfront.walk_guarded(da.node.body):
        if isinstance(st, ast.Raise):
            raises.append(pyfront.guard_terms(g))
        if isinstance(st, ast.Return):
            returns.append((ast.unparse(st.value) if st.value else "None", pyfront.guard_terms(g)))
    ok = raises == [[(d_expr, False)]]
    ctx.ob(R, m.rel, "JinjaAssert._do_assert :: raises exactly when the expression is falsy", ok, f"raise guards: {raises}", da.node.lineno)
    ok = any(v == f"{d_caller}()" and (t == [] or t == [(d_expr, True)]) for v, t in returns)
    ctx.ob(R, m.rel, "JinjaAssert._do_assert :: otherwise returns caller()", ok, f"returns: {returns}", da.node.lineno)
    first_arg = None
    for n in ast.walk(parse.node):
        if isinstance(n, ast.Assign) and isinstance(n.targets[0], ast.Name) and n.targets[0].id == args_name and isinstance(n.value, ast.List) and n.value.elts:
            first_arg = ast.unparse(n.value.elts[0])
    ctx.ob(R, m.rel, "JinjaAssert.parse :: the asserted value is the parsed expression", first_arg == f"{pparam}.parse_expression()", str(first_arg), parse.node.lineno)
    uq = px.cls("nunavut.jinja.extensions", "UseQuery")
    up = uq.methods["parse"]
    uparam = [a.arg for a in up.node.args.args if a.arg != "self"][0]
    tests = [n for n in ast.walk(up.node) if isinstance(n, ast.Assign) and any(isinstance(t, ast.Attribute) and t.attr == "test" for t in n.targets)]
    ifs = [c for c in ast.walk(up.node) if isinstance(c, ast.Call) and ast.unparse(c.func).endswith("nodes.If")]
    ok = bool(ifs) and len(tests) == 1 and isinstance(tests[0].value, ast.Call) and ast.unparse(tests[0].value.func) == "self.call_method" \
        and len(tests[0].value.args) == 2 and all(isinstance(a, ast.Name) for a in tests[0].value.args)
    ctx.ob(R, m.rel, "UseQuery.parse :: builds nodes.If with the query call as test", ok, "", up.node.lineno)
    negate = None
    ok2 = False
    if ok:
        tname, aname = (a.id for a in tests[0].value.args)
        tvals = [n.value for n in ast.walk(up.node) if isinstance(n, ast.Assign) and any(isinstance(t, ast.Name) and t.id == tname for t in n.targets)]
        if len(tvals) == 1 and isinstance(tvals[0], ast.IfExp):
            ie = tvals[0]
            body = ie.body.value if isinstance(ie.body, ast.Constant) else None
            orelse = ie.orelse.value if isinstance(ie.orelse, ast.Constant) else None
            if isinstance(ie.test, ast.UnaryOp) and isinstance(ie.test.op, ast.Not) and isinstance(ie.test.operand, ast.Name):
                negate = ie.test.operand.id
                ok2 = (body, orelse) == ("_use_query", "_use_nquery")
            elif isinstance(ie.test, ast.Name):
                negate = ie.test.id
                ok2 = (body, orelse) == ("_use_nquery", "_use_query")
        avals = [n.value for n in ast.walk(up.node) if isinstance(n, ast.Assign) and any(isinstance(t, ast.Name) and t.id == aname for t in n.targets)]
        ok3 = len(avals) == 1 and isinstance(avals[0], ast.List) and avals[0].elts and ast.unparse(avals[0].elts[0]) == f"{uparam}.parse_expression()"
        ctx.ob(R, m.rel, "UseQuery.parse :: the query name is the parsed expression", ok3, "", up.node.lineno)
    ctx.ob(R, m.rel, "UseQuery.parse :: negated form selects _use_nquery", ok2, "", up.node.lineno)
    # negate state per tag
    tags = {}
    for st, g in pyfront.walk_guarded(up.node.body):
        if isinstance(st, ast.Assign) and isinstance(st.targets[0], ast.Name) and st.targets[0].id == negate:
            tags.setdefault(ast.unparse(st.value), []).extend(e for e, p in pyfront.guard_terms(g) if p)
    ok = any("ifnuses" in e for e in tags.get("True", [])) and any("elifnuses" in e for e in tags.get("True", [])) \
        and any("elifuses" in e for e in tags.get("False", []))
    ctx.ob(R, m.rel, "UseQuery.parse :: ifnuses/elifnuses negate, ifuses/elifuses do not", ok, str(tags), up.node.lineno)
    rets = [r for r in ast.walk(up.node) if isinstance(r, ast.Return)]
    ok = len(rets) == 1 and isinstance(rets[0].value, ast.Name)
    if ok:
        rn_ = rets[0].value.id
        first_if = any(isinstance(n, ast.Assign) and any(isinstance(t, ast.Name) and t.id == rn_ for t in n.targets) and isinstance(n.value, ast.Call)
                       and ast.unparse(n.value.func).endswith("nodes.If") for n in ast.walk(up.node))
        chained = any(isinstance(c, ast.Call) and ast.unparse(c.func) == f"{rn_}.elif_.append" for c in ast.walk(up.node))
        ok = first_if and chained
    ctx.ob(R, m.rel, "UseQuery.parse :: returns the If chain", ok, "", up.node.lineno)
    q = uq.methods["_use_query"]
    nq = uq.methods["_use_nquery"]

    def passthrough(fn, e):
        ps_ = [a.arg for a in fn.node.args.args if a.arg != "self"]
        return isinstance(e, ast.Call) and ast.unparse(e.func) == "self._use_query_common" and [ast.unparse(a) for a in e.args] == ps_ and not e.keywords

    rq = [r.value for r in ast.walk(q.node) if isinstance(r, ast.Return)]
    rn = [r.value for r in ast.walk(nq.node) if isinstance(r, ast.Return)]
    ok = len(rq) == 1 and passthrough(q, rq[0]) and len(rn) == 1 and isinstance(rn[0], ast.UnaryOp) and isinstance(rn[0].op, ast.Not) and passthrough(nq, rn[0].operand)
    ctx.ob(R, m.rel, "UseQuery :: _use_nquery is exactly the negation of _use_query", ok, f"{[ast.unparse(x) for x in rq]} / {[ast.unparse(x) for x in rn]}", q.node.lineno)
    common = uq.methods["_use_query_common"]
    cps = [a.arg for a in common.node.args.args if a.arg != "self"]
    rc = [r.value for r in ast.walk(common.node) if isinstance(r, ast.Return)]
    ok = len(rc) == 1 and isinstance(rc[0], ast.Call) and isinstance(rc[0].func, ast.Name) and not rc[0].args
    if ok:
        src_vals = [n.value for n in ast.walk(common.node) if isinstance(n, ast.Assign) and any(isinstance(t, ast.Name) and t.id == rc[0].func.id for t in n.targets)]
        ok = len(src_vals) == 1 and any(isinstance(c, ast.Call) and isinstance(c.func, ast.Name) and c.func.id == "getattr" and len(c.args) >= 2
                                        and "target_language_uses_queries" in ast.unparse(c.args[0]) and ast.unparse(c.args[1]) == cps[0]
                                        for c in ast.walk(src_vals[0]))
    ctx.ob(R, m.rel, "UseQuery._use_query_common :: value is the language's uses-query result", ok, str([ast.unparse(x) for x in rc]), common.node.lineno)
    # the environment installs exactly do/loopcontrols + these two
    envb = px.cls("nunavut.jinja.environment", "CodeGenEnvironmentBuilder")
    dflt = None
    for st in envb.node.body:
        if isinstance(st, ast.Assign) and ast.unparse(st.targets[0]) == "DEFAULT_JINJA_EXTENSIONS":
            dflt = ast.unparse(st.value)
    ctx.ob(R, envb.module.rel, "CodeGenEnvironmentBuilder.DEFAULT_JINJA_EXTENSIONS", dflt == "[jinja_do, loopcontrols, JinjaAssert, UseQuery]", str(dflt))


def run(ctx):
    ctx.explanation = (
        "C19 is decided as confinement of Nunavut's modifications: the regex ASTs of the lexer's *_begin alternatives "
        "show that every non-stock alternative needs the literal `*` after the start string; the parser reaches "
        "autoindent()/lineprefix only under token.value.endswith('*'); the assert / ifuses extensions are built as "
        "ordinary conditionals.  Rendering equivalence with upstream Jinja2 on all templates is not established (the "
        "upstream 2.11 snapshot named in subtree.json is not available offline)."
    )
    ctx.declined = ["equivalence with upstream Jinja2 on all templates (no upstream snapshot offline; 3.1.6 is structured differently)",
                    "the rendering of marked constructs (value-level behaviour of do_lineprefix for all texts)"]
    px = pyfront.PyIndex(ctx.root)
    rule_lexer(ctx)
    rule_parser(ctx)
    rule_lineprefix(ctx)
    rule_ext(ctx, px)
