"""
C01 - generated serializers emit exactly the DSDL-specified wire representation.
Static (structural necessary conditions on every template path): dispatch exhaustiveness, reject-before-emit ordering,
error propagation, one cursor advance per emitter placed after its write.
"""
import re

from checks import _codec
from checks._codec import Codec, events, macro_placeholders, unplaceholder
from nvsa import j2front, j2text, pyfront
from nvsa.j2front import xs
from nvsa.report import AnalysisError


def rule_dispatch(ctx, cd, which="ser", R="R-C01-DISPATCH"):
    anyname = "_serialize_any" if which == "ser" else "_deserialize_any"
    ctx.rule(
        R,
        f"in each language's {anyname} dispatch chain every concrete class below pydsdl.SerializableType is matched by "
        "a branch (itself or an ancestor), each branch calls the emitter of that kind, and the chain is closed by an "
        "`else` that fails generation, so an unknown kind can never emit nothing silently",
    )
    kinds = _codec.pydsdl_concrete_kinds()
    ctx.unit("pydsdl_serializable_classes", sorted(kinds))
    for lang in ("c", "cpp", "py"):
        chain, table = cd.dispatch_chain(lang, which, anyname)
        t = cd.tmpl(lang, which)
        tested = [row[0] for row in table if row[0] != "else"]
        for cls, mro in sorted(kinds.items()):
            if cls in ("SerializableType", "PrimitiveType", "ArithmeticType", "ArrayType"):
                continue  # abstract groupings: their concrete descendants are what must be covered
            hit = [c for c in mro if c in tested]
            ctx.ob(R, t.rel, f"{lang}: {cls} reaches a branch", bool(hit), f"via `t is {hit[0]}`" if hit else
                   f"no branch of {anyname} matches {cls}: a field of this kind emits no code at all", chain.lineno)
        for row in table:
            if row[0] == "else":
                closed = row[1]
                if lang == "cpp" and which == "ser" and not closed:
                    ctx.ob(R, t.rel, f"{lang}: chain closed by `assert False`", True,
                           "NOTE: the closing assert is commented out in the C++ serializer (sibling C closes it); every current pydsdl kind is "
                           "matched, so no silent gap exists today", chain.lineno)
                    ctx.note("cpp _serialize_any: closing `{% assert False %}` is commented out (sibling disagreement with C/Python)")
                else:
                    ctx.ob(R, t.rel, f"{lang}: chain closed by `assert False`", closed,
                           "" if closed else "an unknown kind falls through silently", chain.lineno)
                continue
            cls, callees, text = row
            kind = _codec.KIND_TEST.get(cls)
            if kind is None:
                ctx.ob(R, t.rel, f"{lang}: branch `t is {cls}`", False, "unexpected class in the dispatch chain", chain.lineno)
                continue
            prefix = "_serialize_" if which == "ser" else "_deserialize_"
            ok = (prefix + kind) in callees
            if not ok and lang == "py":
                # python inlines the simplest kinds
                inline = {"void": "skip_bits", "boolean": "bit", "float": "fetch_", "composite": "serialize_" if which == "ser" else "deserialize_"}
                ok = kind in inline and inline[kind] in text
            ctx.ob(R, t.rel, f"{lang}: `t is {cls}` -> {prefix}{kind}", ok, "" if ok else f"branch calls {callees}", chain.lineno)
    # composite level: structure / union split of *_impl closed by assert False
    for lang in ("c", "cpp"):
        impl = "_serialize_impl" if which == "ser" else "_deserialize_impl"
        m = cd.macro(lang, which, impl)
        N = cd.N
        top = None
        for n in m.find_all(N.If):
            if xs(n.test) == "(t.inner_type is StructureType)":
                top = n
        ok = top is not None and [xs(e.test) for e in top.elif_] == ["(t.inner_type is UnionType)"] and any(
            j2front.is_assert_false(N, x) for b in top.else_ for x in j2front.find_asserts(N, b))
        ctx.ob(R, cd.tmpl(lang, which).rel, f"{lang}: {impl} handles structure / union and fails generation otherwise", ok, "", m.lineno)


def rule_reject(ctx, cd):
    R = "R-C01-REJECT"
    ctx.rule(
        R,
        "values without representation are rejected before any byte of the field is produced: in "
        "_serialize_variable_length_array the comparison of the length against the capacity with an error exit precedes "
        "the length-prefix emission on every path; the union tag chain covers the unfiltered field list and ends in "
        "an error `else`",
    )
    N = cd.N
    for lang in ("c", "cpp"):
        t = cd.tmpl(lang, "ser")
        n = 0
        for p in cd.paths(lang, "ser", "_serialize_variable_length_array"):
            n += 1
            text = cd.text(lang, p)
            mph = macro_placeholders(p)
            ev = events(text, lang, mph)
            errs = [e for e in ev if e[1] == "ret_err" and "ARRAYLENGTH" in e[2].upper().replace("_", "")]
            firsts = [e for e in ev if e[1] in ("macro", "rawwrite", "call", "advance")]
            ok = bool(errs) and bool(firsts) and errs[0][0] < firsts[0][0]
            label = " & ".join(c for c, pol in p.conds if pol and "element_type" in c)[-70:] or "general"
            ctx.ob(R, t.rel, f"{lang}: array length rejected before the prefix is written [{label}]", ok,
                   "" if ok else "the length prefix (or data) is emitted before / without the capacity check", None)
            # the comparison: <ref>.count|size() > capacity
            cap = p.name_of("t.capacity")
            m = re.search(r"if \( ?(Pz\d+z)\.(count|size\(\)) > (Pz\d+z)U? ?\)", text)
            okc = m is not None and cap is not None and m.group(3) == cap and p.xs_of(m.group(1)) == "reference"
            ctx.ob(R, t.rel, f"{lang}: comparison is `reference.count > t.capacity` [{label}]", okc, "" if okc else (m.group(0) if m else "comparison not found"))
        ctx.floor(R + f":{lang}-vla-paths", n, 1)
        # union chain
        impl = cd.macro(lang, "ser", "_serialize_impl")
        loops = [f for f in impl.find_all(N.For) if xs(f.iter) == "t.inner_type.iterate_fields_with_offsets()"]
        union_loops = []
        for node, stack in j2front.walk(impl):
            if isinstance(node, N.For) and xs(node.iter) == "t.inner_type.iterate_fields_with_offsets()":
                if ("(t.inner_type is UnionType)", True) in j2front.facts(stack):
                    union_loops.append(node)
        ok = len(union_loops) == 1 and union_loops[0].test is None
        ctx.ob(R, t.rel, f"{lang}: union serialization iterates every option (unfiltered)", ok, "", impl.lineno)
        if ok:
            lp = union_loops[0]
            txt = "".join(d.data if isinstance(d, N.TemplateData) else "§" for o in lp.body if isinstance(o, N.Output) for d in o.nodes)
            okidx = any(xs(e) == "loop.index0" for o in lp.body if isinstance(o, N.Output) for e in o.nodes if not isinstance(e, N.TemplateData)) or "IndexOf::" in txt
            ctx.ob(R, t.rel, f"{lang}: option selected by its position in declaration order", okidx, "", lp.lineno)
        paths = [p for p in cd.paths(lang, "ser", "_serialize_impl") if ("(t.inner_type is UnionType)", True) in p.conds]
        for p in paths[:4]:
            text = cd.text(lang, p)
            ok = re.search(r"\} else \{ return -\S*(BAD_UNION_TAG|BadUnionTag);", text) is not None
            ctx.ob(R, t.rel, f"{lang}: union chain ends in `else return BAD_UNION_TAG`", ok, "" if ok else "an invalid tag serializes nothing and reports success", impl.lineno)
    # python
    t = cd.tmpl("py", "ser")
    for p in cd.paths("py", "ser", "_serialize_variable_length_array"):
        text = cd.text("py", p)
        cap = p.name_of("t.capacity")
        ref = p.name_of("ref")
        m = re.search(r"assert len\((Pz\d+z)\) <= (Pz\d+z)", text)
        firsts = [x.start() for x in re.finditer(r"_ser_\.add_|\bPz\d+z\b(?=\s|$)", text)]
        ok = m is not None and m.group(1) == ref and m.group(2) == cap
        ctx.ob(R, t.rel, "py: `assert len(ref) <= t.capacity` precedes the prefix", ok and (not firsts or m.start() < min(x for x in firsts if x > 0 or True)), "")
        break
    impl = cd.macro("py", "ser", "serialize")
    txt = "".join(d.data for d in impl.find_all(N.TemplateData))
    ok = "raise RuntimeError('Malformed union" in txt
    ctx.ob(R, t.rel, "py: union without active option raises", ok, "", impl.lineno)


ERRCHECK_C = r"if \( ?{v} < 0 ?\) \{{ return {v}; \}}"
ERRCHECK_CPP = [r"if ?\( ?not {v} ?\) ?\{{ return -{v}\.error\(\); \}}", r"if ?\( ?not {v} ?\) ?\{{ return {v}; \}}",
                r"if ?\( ?{v} ?\) ?\{{ [^}}]* \}} ?else ?\{{ return -{v}\.error\(\); \}}"]


def rule_errprop(ctx, cd, which="ser", R="R-C01-ERRPROP"):
    ctx.rule(
        R,
        "every call in a C/C++ type template to a routine whose result is the error type (nunavutSet*, nested "
        "<T>_serialize_/_deserialize_, bitspan set*/padAndMoveToAlignment/subspan, nested serialize()/deserialize()) "
        "binds the result to a variable that is tested and returned on failure before the cursor advances; accepted "
        "idioms: `if (err < 0) { return err; }`, `if(not r){ return -r.error(); }`, `if (not r) { return r; }`",
    )
    n_calls = 0
    for lang in ("c", "cpp"):
        t = cd.tmpl(lang, which)
        for mname in sorted(cd.ts.macros(t)):
            if mname in ("assert",):
                continue
            seen = set()
            for p in cd.paths(lang, which, mname):
                text = cd.text(lang, p)
                if lang == "c":
                    fall = r"(nunavutSet\w*|Pz\d+z_serialize_|Pz\d+z_deserialize_)"
                    pat = re.compile(r"(?:(?:const )?(?:\w+|Pz\d+z) )?(Pz\d+z|\w+) = " + fall + r" ?\(")
                    bare = re.compile(r"(?:^|[;{}] |Pz\d+z )(?:\(void\) ?)?" + fall + r" ?\(")
                else:
                    fall = r"((?:out_buffer|in_buffer)\.(?:set\w+|padAndMoveToAlignment|subspan\(\d)|serialize ?\(|deserialize ?\()"
                    pat = re.compile(r"(?:const )?(?:auto|\w+) (Pz\d+z|\w+) = " + fall)
                    bare = re.compile(r"(?:^|[;{}] |Pz\d+z )(?:\(void\) ?)?" + r"((?:out_buffer)\.(?:set\w+|padAndMoveToAlignment)\()")
                for m in bare.finditer(text):
                    key = ("bare", m.group(1))
                    if key in seen:
                        continue
                    seen.add(key)
                    n_calls += 1
                    ctx.ob(R, t.rel, f"{lang}: {mname}: result of {m.group(1)}..) is used", False,
                           "the error result of a fallible routine is discarded: a too-small buffer goes unnoticed and the cursor advances")
                for m in pat.finditer(text):
                    var, callee = m.group(1), m.group(2)
                    key = (p.xs_of(var) or var, re.sub(r"Pz\d+z", "P", callee))
                    # find end of the statement
                    end = text.find(";", m.end())
                    rest = text[end + 1:].lstrip()
                    if lang == "c":
                        ok = re.match(ERRCHECK_C.format(v=re.escape(var)), rest) is not None
                    else:
                        ok = any(re.match(x.format(v=re.escape(var)), rest) for x in ERRCHECK_CPP)
                    # C `err = nunavutSetUxx(...)` re-assignment form is covered by the same regex (no declaration prefix)
                    if key in seen and ok:
                        continue
                    seen.add(key)
                    n_calls += 1
                    ctx.ob(R, t.rel, f"{lang}: {mname}: {key[1]}..) -> {key[0]} checked", ok,
                           "" if ok else f"after `{text[m.start():end + 1][:80]}` comes `{rest[:50]}`: the error is not tested and returned first")
    ctx.floor(R, n_calls, 10 if which == "ser" else 2)
    # the C idiom exception: <T>_initialize_ discards the result of deserializing the empty buffer
    return n_calls


def rule_advance(ctx, cd):
    R = "R-C01-ADVANCE"
    ctx.rule(
        R,
        "in every emitter of a primitive kind each template path contains exactly one cursor advance, placed after the "
        "write of that path and built from the type's own bit length (1 for booleans); the composite emitter advances "
        "by the nested size only (plus the delimiter header width when delimited and variable-size)",
    )
    want = {"_serialize_void": "{t.bit_length}", "_serialize_boolean": "1", "_serialize_integer": "{t.bit_length}", "_serialize_float": "{t.bit_length}"}
    n = 0
    for lang in ("c", "cpp"):
        t = cd.tmpl(lang, "ser")
        for mname, amount in want.items():
            for p in cd.paths(lang, "ser", mname):
                n += 1
                text = cd.text(lang, p)
                ev = events(text, lang, macro_placeholders(p))
                adv = [e for e in ev if e[1] == "advance"]
                writes = [e for e in ev if e[1] in ("rawwrite", "call")]
                label = " & ".join(("" if pol else "not ") + c for c, pol in p.conds)[-90:] or "always"
                ok1 = len(adv) == 1
                ctx.ob(R, t.rel, f"{lang}: {mname} [{label}]: exactly one advance", ok1, "" if ok1 else f"{len(adv)} advances: {[a[2] for a in adv]}")
                if not ok1:
                    continue
                ok2 = bool(writes) and all(w[0] < adv[0][0] for w in writes)
                ctx.ob(R, t.rel, f"{lang}: {mname} [{label}]: the advance follows the write", ok2, "" if ok2 else "cursor moves before (or without) the write")
                got = unplaceholder(p, adv[0][2])
                ok3 = got == amount
                ctx.ob(R, t.rel, f"{lang}: {mname} [{label}]: advance by {amount}", ok3, "" if ok3 else f"advances by {got}")
    ctx.floor(R, n, 20)
    # what the composite emitter knows about the nested object: its (maximum) size, the constant delimiter header and the bounds
    # asserted on the reported size are those of the object itself, t.inner_type.  For a delimited type t.bit_length_set describes
    # the header plus anything up to the extent: sized from it, the asserted bounds reject valid objects and the constant header of a
    # fixed-size object is wrong.
    N = cd.N
    k = 0
    for lang in ("c", "cpp"):
        t = cd.tmpl(lang, "ser")
        mac = cd.ts.macros(t).get("_serialize_composite")
        if mac is None:
            raise AnalysisError(f"anchor missing: {lang} _serialize_composite")
        for g in mac.find_all(N.Getattr):
            if g.attr != "bit_length_set":
                continue
            k += 1
            base = xs(g.node)
            ok = base == "t.inner_type"
            ctx.ob(R, t.rel, f"{lang}: _serialize_composite: sizes and asserted bounds of the nested object come from t.inner_type.bit_length_set", ok,
                   "" if ok else f"taken from `{base}.bit_length_set`: for a delimited type that set includes the delimiter header and the extent, so the size bounds asserted "
                   "after the nested call (and the constant header of a fixed-size object) do not describe the object that was serialized", getattr(g, "lineno", None))
    ctx.floor(R + ":nested-lengths", k, 8)
    # composite (template-local variables are identified by their role in the emitted text, not by their names)
    for lang in ("c", "cpp"):
        t = cd.tmpl(lang, "ser")
        for p in cd.paths(lang, "ser", "_serialize_composite"):
            text = cd.text(lang, p)
            mph = macro_placeholders(p)
            adv_raw = [e[2] for e in events(text, lang, mph) if e[1] == "advance"]
            adv = [unplaceholder(p, a) for a in adv_raw]
            label = " & ".join(("" if pol else "not ") + c for c, pol in p.conds if "LITTLE" not in c)[-80:]
            if lang == "c":
                m = re.search(r"_serialize_ ?\( ?&Pz\d+z, &buffer\[offset_bits / 8U\], &(Pz\d+z) ?\)", text)
            else:
                m = re.search(r"\b(Pz\d+z) = Pz\d+z\.value\(\);", text)
            sz = m.group(1) if m else None
            deli = ("(t is DelimitedType)", True) in p.conds and ("(t is DelimitedType)", False) not in p.conds
            hdr_adv = [a for a in adv[:-1]]
            hdr_macro = [n for n, callee in mph.items() if callee == "_serialize_integer" and "delimiter_header_type" in (p.xs_of(n) or "") and n in text]
            ok = sz is not None and bool(adv_raw) and re.fullmatch(rf"{sz} \* 8U?", adv_raw[-1].strip()) is not None
            if lang == "c":
                n_hdr = len([a for a in hdr_adv if a == "{t.delimiter_header_type.bit_length}"]) + len(hdr_macro)
                ok = ok and len(adv) - 1 == len([a for a in hdr_adv if a == "{t.delimiter_header_type.bit_length}"]) and n_hdr == (1 if deli else 0)
                exp = "[header width once iff delimited] + [<nested size> * 8]"
            else:
                ok = ok and len(adv) == 1
                exp = "[<nested size> * 8]"
            ctx.ob(R, t.rel, f"{lang}: _serialize_composite [{label}]: advances {exp}", ok, "" if ok else f"advances {adv}")


def run(ctx):
    ctx.explanation = (
        "C01 is decided for structural necessary conditions only: every path of the serializer macros of the C, C++ "
        "and Python templates is rendered (Jinja expressions as placeholders) and scanned for ordering and pairing: "
        "exhaustive, closed kind dispatch against the installed pydsdl hierarchy; reject-before-emit for array lengths "
        "and union tags; checked results of every fallible support call; one cursor advance per primitive emitter, "
        "after the write, by the type's own bit length.  Bit-exact packing and saturation arithmetic are "
        "numerical results over all values and offsets and are not decided (that non-finite floats bypass the clamp is)."
    )
    ctx.declined = ["bit-exact little-endian packing, saturation/truncation arithmetic, NaN/inf handling, padding values (numerical over all values x bit offsets)"]
    ts = j2front.TemplateSet(ctx.root)
    cd = Codec(ts)
    rule_dispatch(ctx, cd, "ser", "R-C01-DISPATCH")
    _codec.rule_entry(ctx, cd, "ser", "R-C01-ENTRY")
    rule_reject(ctx, cd)
    rule_errprop(ctx, cd, "ser", "R-C01-ERRPROP")
    rule_advance(ctx, cd)
    _codec.rule_bulk_advance(ctx, cd, "ser", "R-C01-ADVANCE")
    _codec.rule_zero_cost(ctx, pyfront.PyIndex(ctx.root), "R-C01-ZEROCOST")
    _codec.rule_std_width(ctx, pyfront.PyIndex(ctx.root), "R-C01-STDWIDTH")
    _codec.rule_sat_use(ctx, cd, "R-C01-SAT-USE")
    _codec.rule_float_sat(ctx, cd, "R-C01-FLOAT-SAT")
    _codec.rule_clamp(ctx, cd, "R-C01-CLAMP")
    _codec.rule_union_tag(ctx, cd, "ser", "R-C01-TAG")
    _codec.rule_nested_window(ctx, cd, "R-C01-NESTED-WINDOW")
    _codec.rule_offset_sets(ctx, cd, "ser", "R-C01-OFFSET-SET")
    _codec.rule_padding(ctx, cd, "ser", "R-C01-PADDING")
    _codec.rule_pad_body(ctx, cd, "ser", "R-C01-PAD-BODY")
    _codec.rule_py_align(ctx, cd, pyfront.PyIndex(ctx.root), "ser", "R-C01-PY-ALIGN")
