"""
C13 - configuration sources are merged with a fixed precedence.
Static: table agreement (argparse vs DefaultValue wrapping), merge order, aliasing/ownership of deep_update.
"""
import ast

from nvsa import effects, pyfront
from nvsa.report import AnalysisError

RUN_MOD = "nunavut.cli.runners"
CLI_MOD = "nunavut.cli"
UTIL = "nunavut._utilities"


def argparse_table(px):
    """dest -> dict(action, has_default, default) from every add_argument call of the CLI module."""
    m = px.module(CLI_MOD)
    table = {}
    for c in ast.walk(m.tree):
        if not (isinstance(c, ast.Call) and isinstance(c.func, ast.Attribute) and c.func.attr == "add_argument"):
            continue
        flags = [a.value for a in c.args if isinstance(a, ast.Constant) and isinstance(a.value, str)]
        kw = {k.arg: k.value for k in c.keywords}
        dest = None
        if "dest" in kw and isinstance(kw["dest"], ast.Constant):
            dest = kw["dest"].value
        else:
            longs = [f for f in flags if f.startswith("--")]
            if longs:
                dest = longs[0][2:].replace("-", "_")
            elif flags and not flags[0].startswith("-"):
                dest = flags[0]
        if dest is None:
            continue
        action = kw["action"].value if "action" in kw and isinstance(kw["action"], ast.Constant) else None
        has_default = "default" in kw and not (isinstance(kw["default"], ast.Constant) and kw["default"].value is None)
        table[dest] = dict(action=action, has_default=has_default or action in ("store_true", "store_false", "count") and action != "count",
                           line=c.lineno)
    return table


def _args_attrs(expr):
    out = []
    for n in ast.walk(expr):
        if isinstance(n, ast.Attribute) and ast.unparse(n.value) == "self._args":
            out.append(n.attr)
    return out


def _builder_names(f):
    out = set()
    for n_ in ast.walk(f.node):
        if isinstance(n_, (ast.Assign, ast.AnnAssign)) and isinstance(n_.value, ast.Call) and ast.unparse(n_.value.func).endswith("LanguageContextBuilder"):
            tg = n_.targets[0] if isinstance(n_, ast.Assign) else n_.target
            if isinstance(tg, ast.Name):
                out.add(tg.id)
    return out


def rule_default_wrap(ctx, px):
    R = "R-C13-DEFAULT-WRAP"
    ctx.rule(
        R,
        "every command-line argument that has an implicit default (store_true / default=...) and is copied into the "
        "language options is wrapped as `<explicit> if args.X else DefaultValue(<default>)` (or copied only when set); "
        "valued arguments without default are copied only when not None",
    )
    table = argparse_table(px)
    if len(table) < 20:
        raise AnalysisError(f"anchor missing: argparse table has only {len(table)} entries")
    ctx.unit("argparse_arguments", len(table))
    f = px.func(RUN_MOD, "ArgparseRunner._create_language_context")
    n = 0
    # the options dict is whatever is handed to the builder under WKCV_LANGUAGE_OPTIONS: the second argument of the override call, or the
    # value paired with that key in a table of (key, value) pairs the function applies in a loop; it may be built by a helper method
    optsrc = None
    for c in ast.walk(f.node):
        if isinstance(c, ast.Call) and isinstance(c.func, ast.Attribute) and c.func.attr == "set_target_language_configuration_override" \
                and len(c.args) == 2 and "LANGUAGE_OPTIONS" in ast.unparse(c.args[0]):
            optsrc = c.args[1]
    if optsrc is None:
        for tpl in ast.walk(f.node):
            if isinstance(tpl, ast.Tuple) and len(tpl.elts) == 2 and "LANGUAGE_OPTIONS" in ast.unparse(tpl.elts[0]) and not isinstance(tpl.elts[0], ast.Tuple):
                optsrc = tpl.elts[1]
    fb, optvar = f, None
    if isinstance(optsrc, ast.Name):
        # a local that merely holds what a helper method built is the helper's dict
        asg = [n_.value for n_ in ast.walk(f.node) if isinstance(n_, (ast.Assign, ast.AnnAssign)) and n_.value is not None
               and any(isinstance(t_, ast.Name) and t_.id == optsrc.id for t_ in (n_.targets if isinstance(n_, ast.Assign) else [n_.target]))]
        if len(asg) == 1 and isinstance(asg[0], ast.Call) and isinstance(asg[0].func, ast.Attribute) and isinstance(asg[0].func.value, ast.Name) \
                and asg[0].func.value.id in ("self", "cls") and f.cls is not None and asg[0].func.attr in f.cls.methods:
            optsrc = asg[0]
    if isinstance(optsrc, ast.Name):
        optvar = optsrc.id
    elif isinstance(optsrc, ast.Call) and isinstance(optsrc.func, ast.Attribute) and isinstance(optsrc.func.value, ast.Name) and optsrc.func.value.id in ("self", "cls") \
            and f.cls is not None and optsrc.func.attr in f.cls.methods:
        fb = f.cls.methods[optsrc.func.attr]
        rets = [r.value for r in ast.walk(fb.node) if isinstance(r, ast.Return) and r.value is not None]
        if len(rets) == 1 and isinstance(rets[0], ast.Name):
            optvar = rets[0].id
    if optvar is None:
        raise AnalysisError("anchor missing: language options override in _create_language_context")
    pm_f = pyfront.parent_map(fb.node)

    def loop_constants(it):
        """the string constants a loop runs over: a literal tuple / list, or a class-level constant table (`self._SWITCHES`)"""
        if isinstance(it, ast.Attribute) and isinstance(it.value, ast.Name) and it.value.id in ("self", "cls") and fb.cls is not None:
            for st_ in fb.cls.node.body:
                if isinstance(st_, (ast.Assign, ast.AnnAssign)) and st_.value is not None:
                    tg_ = st_.targets[0] if isinstance(st_, ast.Assign) else st_.target
                    if isinstance(tg_, ast.Name) and tg_.id == it.attr:
                        it = st_.value
        if isinstance(it, (ast.Tuple, ast.List)) and all(isinstance(e, ast.Constant) and isinstance(e.value, str) for e in it.elts):
            return [e.value for e in it.elts]
        return None

    def expand_loop_constants(st):
        """`for name in ("a", "b"): options[name] = X if getattr(self._args, name) else DefaultValue(..)` -> one statement per
        constant with getattr(self._args, name) rewritten to self._args.<constant>"""
        cur = pm_f.get(id(st))
        while cur is not None and not isinstance(cur, ast.For):
            cur = pm_f.get(id(cur))
        consts = loop_constants(cur.iter) if cur is not None and isinstance(cur.target, ast.Name) else None
        if consts is None:
            return [st]
        lv = cur.target.id
        if lv not in {x.id for x in ast.walk(st) if isinstance(x, ast.Name)}:
            return [st]
        out = []
        for ev in consts:
            class _R(ast.NodeTransformer):
                def visit_Call(self, node):
                    if isinstance(node.func, ast.Name) and node.func.id == "getattr" and len(node.args) >= 2 and ast.unparse(node.args[0]) == "self._args" \
                            and isinstance(node.args[1], ast.Name) and node.args[1].id == lv:
                        return ast.copy_location(ast.Attribute(value=node.args[0], attr=ev, ctx=ast.Load()), node)
                    self.generic_visit(node)
                    return node

                def visit_Name(self, node):
                    return ast.copy_location(ast.Constant(value=ev), node) if node.id == lv else node
            import copy as _copy
            out.append(ast.fix_missing_locations(_R().visit(_copy.deepcopy(st))))
        return out

    stmts = []
    for st, gd in pyfront.walk_guarded(fb.node.body):
        if isinstance(st, ast.Assign) and isinstance(st.targets[0], ast.Subscript) and ast.unparse(st.targets[0].value) == optvar:
            # a hoisted local (`flag = getattr(self._args, name)`, `args = self._args`) is the expression it was assigned
            st_n = ast.copy_location(ast.Assign(targets=st.targets, value=pyfront.subst_locals(fb.node, st.value)), st)
            pm_f[id(st_n)] = pm_f.get(id(st))
            gd_n = tuple((pyfront.subst_locals(fb.node, t_), p_) for t_, p_ in gd)
            for st2 in expand_loop_constants(st_n):
                stmts.append((st2, gd_n))
    f = fb
    for st, gd in stmts:
        if True:
            key = ast.unparse(st.targets[0].slice)
            xs = _args_attrs(st.value)
            for x in xs:
                n += 1
                info = table.get(x)
                if info is None:
                    ctx.ob(R, f.module.rel, f"{f.short} :: language_options[{key}] <- args.{x}", False,
                           f"args.{x} is not defined by the argument parser", st.lineno)
                    continue
                terms = pyfront.guard_terms(gd)
                if info["has_default"]:
                    wrapped = isinstance(st.value, ast.IfExp) and ast.unparse(st.value.test) == f"self._args.{x}" \
                        and isinstance(st.value.orelse, ast.Call) and ast.unparse(st.value.orelse.func) == "DefaultValue"
                    only_when_set = (f"self._args.{x}", True) in terms
                    ok = wrapped or only_when_set
                    ctx.ob(R, f.module.rel, f"{f.short} :: language_options[{key}] <- args.{x} ({info['action'] or 'default'})", ok,
                           "wrapped in DefaultValue when not given" if wrapped else ("copied only when set" if only_when_set else
                           f"the parser's implicit default of --{x.replace('_', '-')} is stored as an explicit value and will displace a value given in a configuration file"),
                           st.lineno)
                else:
                    ok = (f"self._args.{x} is not None", True) in terms or (f"self._args.{x} is None", False) in terms
                    ctx.ob(R, f.module.rel, f"{f.short} :: language_options[{key}] <- args.{x} (valued, no default)", ok,
                           "copied only when given" if ok else "None would be stored as an explicit value", st.lineno)
    ctx.floor(R, n, 5)
    # builder setters fed from args: the setter must ignore None and the argument must have no default
    b = px.cls("nunavut.lang", "LanguageContextBuilder")
    setter = b.methods.get("set_target_language_configuration_override")
    if setter is None:
        raise AnalysisError("anchor missing: set_target_language_configuration_override")
    stores = []
    for st, gd in pyfront.walk_guarded(setter.node.body):
        if isinstance(st, ast.Assign) and "_target_language_config[" in ast.unparse(st.targets[0]):
            stores.append(pyfront.guard_terms(gd))
    vparam = setter.node.args.args[2].arg if len(setter.node.args.args) > 2 else "value"
    ok = bool(stores) and all((f"{vparam} is not None", True) in t or (f"{vparam} is None", False) in t for t in stores)
    ctx.ob(R, setter.module.rel, f"{setter.short} :: ignores None (an option not given on the command line)", ok, "", setter.node.lineno)
    bnames = _builder_names(f)
    for c in ast.walk(f.node):
        if isinstance(c, ast.Call) and isinstance(c.func, ast.Attribute) and isinstance(c.func.value, ast.Name) and c.func.value.id in bnames \
                and c.func.attr in ("set_target_language_configuration_override", "set_target_language_extension"):
            for a in c.args:
                for x in _args_attrs(a):
                    info = table.get(x)
                    ok = info is not None and not info["has_default"]
                    ctx.ob(R, f.module.rel, f"{f.short} :: builder.{c.func.attr}(args.{x})", ok,
                           "argument has no implicit default (None = not given, ignored by the setter)" if ok else
                           f"--{x.replace('_', '-')} has an implicit default that is passed as an explicit override", c.lineno)


def rule_order(ctx, px):
    R = "R-C13-ORDER"
    ctx.rule(
        R,
        "built-in properties are loaded first, configuration files are merged in argument order when add_config_files "
        "is called, builder overrides are only stored by the setters and merged last in create(); scalar values in "
        "deep_update are assigned only through DefaultValue.assign_to_if_not_default",
    )
    b = px.cls("nunavut.lang", "LanguageContextBuilder")
    acf = b.methods["add_config_files"]
    loops = [n for n in ast.walk(acf.node) if isinstance(n, ast.For)]
    ok = len(loops) == 1 and ast.unparse(loops[0].iter) == acf.node.args.vararg.arg if acf.node.args.vararg else False
    ctx.ob(R, acf.module.rel, f"{acf.short} :: files merged in the order given", bool(ok),
           "" if ok else "iteration over the files is reordered/filtered", acf.node.lineno)
    upd = [c for c in pyfront.walk_with_helpers(px, acf) if isinstance(c, ast.Call) and isinstance(c.func, ast.Attribute) and c.func.attr.startswith("update_from_yaml")]
    ctx.ob(R, acf.module.rel, f"{acf.short} :: each file is merged into the builder's config", len(upd) == 1 and ast.unparse(upd[0].func.value) == "self.config", "", acf.node.lineno)
    # ... every one of them, every time it is listed: nothing in the loop skips a file (a file given twice is merged twice - the
    # later occurrence must win over what came in between)
    if loops:
        lp = loops[0]
        helpers = {h.name for h in pyfront.private_helpers(px, acf)}
        merges = []
        for st, gd in pyfront.walk_guarded(lp.body, ()):
            for c in pyfront.expr_calls(st):
                if isinstance(c.func, ast.Attribute) and (c.func.attr.startswith("update_from_yaml") or c.func.attr in helpers):
                    merges.append(pyfront.guard_terms(gd))
        skips = [x for x in ast.walk(lp) if isinstance(x, (ast.Continue, ast.Break))]
        ok = bool(merges) and all(not g for g in merges) and not skips
        ctx.ob(R, acf.module.rel, f"{acf.short} :: no listed file is skipped", ok,
               "" if ok else f"the merge is conditional ({merges}) or the loop skips entries: a file listed again later no longer overrides what was merged in between",
               lp.lineno)
    # setters store only
    for name in ("set_target_language_configuration_override", "set_target_language_extension", "set_target_language"):
        s = b.methods[name]
        touches = [n for n in ast.walk(s.node) if isinstance(n, ast.Attribute) and n.attr in ("config", "_ln_loader")
                   and isinstance(n.value, ast.Name) and n.value.id == "self"]
        ctx.ob(R, s.module.rel, f"{s.short} :: stores the override without touching the merged configuration", not touches,
               "" if not touches else "setter merges immediately (order with files would depend on call order)", s.node.lineno)
    cr = b.methods["create"]
    # the merge of the stored overrides: self.config.update_section(<section>, self._target_language_config), in create() itself or in a
    # private helper create() calls; `site` is the statement of create() that performs it (the call, or the call of the helper)
    ups, site = [], None
    for c in ast.walk(cr.node):
        if isinstance(c, ast.Call) and isinstance(c.func, ast.Attribute) and c.func.attr == "update_section":
            ups.append((c, cr))
            site = c
    if not ups:
        for h in pyfront.private_helpers(px, cr):
            hc = [c for c in ast.walk(h.node) if isinstance(c, ast.Call) and isinstance(c.func, ast.Attribute) and c.func.attr == "update_section"]
            if hc:
                ups += [(c, h) for c in hc]
                site = next((c for c in ast.walk(cr.node) if isinstance(c, ast.Call) and isinstance(c.func, ast.Attribute) and c.func.attr == h.name), None)
    ok = len(ups) == 1 and site is not None and len(ups[0][0].args) == 2 and ast.unparse(ups[0][0].args[1]) == "self._target_language_config" \
        and ast.unparse(ups[0][0].func.value) == "self.config" and not pyfront.guards_of(ups[0][1].node, ups[0][0])
    ctx.ob(R, cr.module.rel, f"{cr.short} :: merges the stored overrides into the target language section", ok, "", cr.node.lineno)
    if ok:
        # ...before the language object (which snapshots options) is created
        news = [c for c in ast.walk(cr.node) if isinstance(c, ast.Call) and isinstance(c.func, ast.Attribute) and c.func.attr.startswith("_new_language")]
        ok2 = bool(news) and all(site.lineno < nn.lineno for nn in news)
        ctx.ob(R, cr.module.rel, f"{cr.short} :: overrides merged before the Language object is built", ok2,
               "" if ok2 else "the Language object is created first: it validates / expands its options (language-standard shorthands) before the overrides are in", cr.node.lineno)
        gd = pyfront.guards_of(cr.node, site)
        ctx.ob(R, cr.module.rel, f"{cr.short} :: override merge is unconditional", not gd, "", site.lineno)
    # CLI calls them in order: add_config_files before create; create is what is returned
    f = px.func(RUN_MOD, "ArgparseRunner._create_language_context")
    bnames = _builder_names(f)
    calls = [(c.lineno, c.func.attr) for c in ast.walk(f.node) if isinstance(c, ast.Call) and isinstance(c.func, ast.Attribute)
             and isinstance(c.func.value, ast.Name) and c.func.value.id in bnames]
    names = [a for _, a in sorted(calls)]
    # a fluent chain `Builder(...).set_x(..).add_config_files(..).create()` is the same sequence, innermost call first
    inner_ids = {id(c_.func.value) for c_ in ast.walk(f.node) if isinstance(c_, ast.Call) and isinstance(c_.func, ast.Attribute) and isinstance(c_.func.value, ast.Call)}
    for c_ in ast.walk(f.node):
        if isinstance(c_, ast.Call) and isinstance(c_.func, ast.Attribute) and id(c_) not in inner_ids and isinstance(c_.func.value, ast.Call):
            seq_, cur_ = [], c_
            while isinstance(cur_, ast.Call) and isinstance(cur_.func, ast.Attribute):
                seq_.append(cur_.func.attr)
                cur_ = cur_.func.value
            base_ok = (isinstance(cur_, ast.Name) and cur_.id in bnames) or (isinstance(cur_, ast.Call) and ast.unparse(cur_.func).split(".")[-1] == "LanguageContextBuilder")
            if base_ok and "create" in seq_:
                names = names + list(reversed(seq_))
    ok = "add_config_files" in names and names and names[-1] == "create"
    ctx.ob(R, f.module.rel, f"{f.short} :: builder.add_config_files(...) ... builder.create() last", ok, f"builder calls: {names}", f.node.lineno)
    acf_call = [c for c in ast.walk(f.node) if isinstance(c, ast.Call) and isinstance(c.func, ast.Attribute) and c.func.attr == "add_config_files"]
    if acf_call:
        a = acf_call[0]
        ok = len(a.args) == 1 and isinstance(a.args[0], ast.Starred)
        if ok:
            src = a.args[0].value
            ALLOWED = ("[]", "self._args.configuration", "[self._args.configuration]", "list(self._args.configuration)")

            def _values(e, where, depth=0):
                """(expression, function it lives in) pairs the starred argument can stand for: a local's assignments, what a helper method returns"""
                if depth > 3:
                    return [(e, where)]
                if isinstance(e, ast.Name):
                    asg = [n_.value for n_ in ast.walk(where.node) if isinstance(n_, ast.Assign) and any(isinstance(t_, ast.Name) and t_.id == e.id for t_ in n_.targets)]
                    if asg:
                        return [x for v_ in asg for x in _values(v_, where, depth + 1)]
                if isinstance(e, ast.Call) and isinstance(e.func, ast.Attribute) and isinstance(e.func.value, ast.Name) and e.func.value.id in ("self", "cls") \
                        and where.cls is not None and e.func.attr in where.cls.methods and not e.args and not e.keywords:
                    h = where.cls.methods[e.func.attr]
                    rets = [r_.value for r_ in ast.walk(h.node) if isinstance(r_, ast.Return) and r_.value is not None]
                    if rets:
                        return [x for v_ in rets for x in _values(v_, h, depth + 1)]
                return [(e, where)]

            def _plain(v_, where):
                v_ = pyfront.subst_locals(where.node, v_)
                while isinstance(v_, ast.Call) and ast.unparse(v_.func) in ("typing.cast", "cast") and len(v_.args) == 2:
                    v_ = v_.args[1]
                return ast.unparse(v_)
            vals = _values(src, f)
            ok = bool(vals) and all(_plain(v_, w_) in ALLOWED for v_, w_ in vals)
        ctx.ob(R, f.module.rel, f"{f.short} :: all --configuration files are passed, in command-line order", ok, "", a.lineno)
    # lazily loaded built-ins: config property
    lcl = px.cls("nunavut.lang._language", "LanguageClassLoader")
    cfgp = lcl.methods["config"]
    # path by path: where nothing is cached yet the built-ins are loaded, stored in the cache and returned; elsewhere the cache is returned
    ok, n_load, n_hit = True, 0, 0
    for path in pyfront.enumerate_paths(cfgp.node.body):
        if path.outcome != "return":
            continue
        terms = pyfront.guard_terms([c_ for c_ in path.conds if not isinstance(c_[0], str)])
        empty = ("self._config is None", True) in terms or ("self._config is not None", False) in terms or ("self._config", False) in terms
        stores = [st_ for st_ in path.stmts if isinstance(st_, ast.Assign) and ast.unparse(st_.targets[0]) == "self._config"]
        loaded = [ast.unparse(pyfront.subst_locals(cfgp.node, st_.value)) for st_ in stores]
        rv = path.stmts[-1].value
        rtxt = ast.unparse(pyfront.subst_locals(cfgp.node, rv)) if rv is not None else "None"
        if empty:
            n_load += 1
            ok = ok and loaded == ["self._load_config()"] and rtxt in ("self._config", "self._load_config()")
        else:
            n_hit += 1
            ok = ok and not stores and rtxt == "self._config"
    ok = ok and n_load >= 1 and n_hit >= 1
    ctx.ob(R, cfgp.module.rel, f"{cfgp.short} :: built-in properties are loaded on first access, before anything is merged", ok, "", cfgp.node.lineno)
    # deep_update scalar assignment
    du = px.func(UTIL, "deep_update")
    d_t, d_s, d_k, d_v = _deep_update_names(du)
    scalar_stores = []
    for st, gd in pyfront.walk_guarded(du.node.body):
        terms = pyfront.guard_terms(gd)
        in_scalar_branch = any(f"isinstance({d_v}" in e and "Mapping" in e and not p for e, p in terms)
        if in_scalar_branch and not isinstance(st, (ast.Continue, ast.Pass)):
            scalar_stores.append(st)
    ok = len(scalar_stores) == 1 and f"DefaultValue.assign_to_if_not_default({d_t}, {d_k}, {d_v})" in ast.unparse(scalar_stores[0])
    ctx.ob(R, du.module.rel, f"{du.short} :: scalars are assigned only through DefaultValue.assign_to_if_not_default", ok,
           "" if ok else "scalar branch: " + "; ".join(ast.unparse(s) for s in scalar_stores), du.node.lineno)
    # assign_to_if_not_default, path by path: the existing entry is kept exactly when the new value is a default and an entry exists that
    # is not a default; presence is decided by the key (KeyError / `in`), never by the truthiness of the existing value
    a = px.func(UTIL, "DefaultValue.assign_to_if_not_default")
    aps = [x.arg for x in a.node.args.args if x.arg not in ("self", "cls")]
    tgt, key, val = aps[0], aps[1], aps[2]
    existing = {f"{tgt}[{key}]"}
    for n_ in ast.walk(a.node):
        if isinstance(n_, ast.Assign) and isinstance(n_.targets[0], ast.Name) and ast.unparse(n_.value) in (f"{tgt}[{key}]", f"{tgt}.get({key})", f"{tgt}.get({key}, None)"):
            existing.add(n_.targets[0].id)
    V_DEF = f"isinstance({val}, DefaultValue)"
    E_DEF = {f"isinstance({e}, DefaultValue)" for e in existing}
    ABSENT_T = {f"{key} not in {tgt}", "except KeyError", "except LookupError"} | {f"{e} is None" for e in existing if "[" not in e}
    ABSENT_F = {f"{key} in {tgt}"} | {f"{e} is not None" for e in existing if "[" not in e}
    n_keep = n_assign = 0
    for path in pyfront.enumerate_paths(a.node.body):
        if path.outcome != "return":
            continue
        r = path.stmts[-1]
        conds = [(t_ if isinstance(t_, str) else ast.unparse(t_), p_) if isinstance(t_, str) else (t_, p_) for t_, p_ in path.conds]
        terms = []
        for t_, p_ in path.conds:
            if isinstance(t_, str):
                terms.append((t_, p_))
            else:
                terms += pyfront.guard_terms([(t_, p_)])
        stores = [st for st in path.stmts if isinstance(st, ast.Assign) and ast.unparse(st.targets[0]) == f"{tgt}[{key}]"]
        returns_existing = r.value is not None and ast.unparse(r.value) in existing
        shown = [(e[:50], p_) for e, p_ in terms]
        if returns_existing and not stores:
            n_keep += 1
            ok = (V_DEF, True) in terms and any((e, False) in terms for e in E_DEF) and not any(e in existing and p_ for e, p_ in terms)
            ctx.ob(R, a.module.rel, f"{a.short} :: path {shown} keeps the existing entry: only when the new value is a default and the entry is not", ok,
                   "" if ok else "the entry is kept on a path that does not establish both facts (or that asks for the entry to be truthy)", r.lineno)
        else:
            n_assign += 1
            stored_ok = len(stores) == 1 and ast.unparse(stores[0].value) == val and (r.value is None or ast.unparse(r.value) in (val, f"{tgt}[{key}]"))
            # the path must establish: the value is explicit, or the entry is absent, or the entry is itself a default
            fine = (V_DEF, False) in terms or any((e, True) in terms for e in E_DEF) or any((e, True) in terms for e in ABSENT_T) or any((e, False) in terms for e in ABSENT_F)
            if not fine:
                # not (A and B and ..) is fine when the failure of every conjunct is: the value is explicit / the entry is a default / the key is absent
                allowed = {V_DEF} | {f"not {e}" for e in E_DEF} | set(ABSENT_F)
                for e, p_ in terms:
                    if p_:
                        continue
                    try:
                        node = ast.parse(e, mode="eval").body
                    except SyntaxError:
                        continue
                    if isinstance(node, ast.BoolOp) and isinstance(node.op, ast.And) and {ast.unparse(v_) for v_ in node.values} <= allowed:
                        fine = True       # not (value is default and entry is not default)
            ctx.ob(R, a.module.rel, f"{a.short} :: path {shown} assigns the new value: the value is explicit, the key is absent, or the entry is a default", stored_ok and fine,
                   "" if stored_ok and fine else "a default-marked value can replace an explicitly configured entry on this path (e.g. an explicit false / 0 / '' tested "
                   "for truthiness), or the value is not stored", r.lineno)
    ctx.ob(R, a.module.rel, f"{a.short} :: has a keeping and an assigning path", n_keep >= 1 and n_assign >= 1, f"keep {n_keep}, assign {n_assign}", a.node.lineno)
    # cpp: per-standard defaults applied as a unit
    cpp = px.cls("nunavut.lang.cpp", "Language").methods["_validate_language_options"]
    ups = []
    for st, gd in pyfront.walk_guarded(cpp.node.body):
        cps = [a_.arg for a_ in cpp.node.args.args if a_.arg != "self"]
        if isinstance(st, ast.Expr) and isinstance(st.value, ast.Call) and len(cps) >= 2 and ast.unparse(st.value.func) == f"{cps[1]}.update":
            ups.append((st, pyfront.guard_terms(gd)))
    ok = len(ups) == 1 and len(ups[0][0].value.args) == 1 and isinstance(ups[0][0].value.args[0], ast.Subscript) \
        and ast.unparse(ups[0][0].value.args[0].value) == cps[0] and isinstance(ups[0][0].value.args[0].slice, ast.Name) \
        and ups[0][1] == [(f"{ups[0][0].value.args[0].slice.id} in {cps[0]}", True)]
    if not ok and len(ups) == 1 and not ups[0][1] and len(ups[0][0].value.args) == 1 and isinstance(ups[0][0].value.args[0], ast.Call):
        # options.update(<helper>(defaults, options)), unconditional: the helper hands back the whole group of the selected standard, or
        # an empty mapping when the standard has no group
        hc = ups[0][0].value.args[0]
        cls_ = px.cls("nunavut.lang.cpp", "Language")
        hname = hc.func.attr if isinstance(hc.func, ast.Attribute) else (hc.func.id if isinstance(hc.func, ast.Name) else None)
        h = cls_.methods.get(hname) if hname else None
        if h is not None and cps[0] in [ast.unparse(a_) for a_ in hc.args]:
            hps = [a_.arg for a_ in h.node.args.args if a_.arg not in ("self", "cls")]
            dpar = hps[[ast.unparse(a_) for a_ in hc.args].index(cps[0])]
            good, n_ret = True, 0
            for path in pyfront.enumerate_paths(h.node.body):
                if path.outcome != "return":
                    continue
                n_ret += 1
                rv = path.stmts[-1].value
                terms = pyfront.guard_terms([c_ for c_ in path.conds if not isinstance(c_[0], str)])
                if isinstance(rv, ast.Subscript) and ast.unparse(rv.value) == dpar and isinstance(rv.slice, ast.Name):
                    continue          # defaults[<std>]: the whole group
                empty = (isinstance(rv, ast.Dict) and not rv.keys) or (isinstance(rv, ast.Call) and ast.unparse(rv.func) == "dict" and not rv.args and not rv.keywords)
                if empty and any((e.endswith(f" not in {dpar}") and p_) or (e.endswith(f" in {dpar}") and " not in " not in e and not p_) for e, p_ in terms):
                    continue          # no group for the standard
                good = False
            ok = good and n_ret >= 2
    ctx.ob(R, cpp.module.rel, f"{cpp.short} :: the standard's option group is applied as a unit (options.update(defaults[std]))", ok,
           "" if ok else "per-standard defaults are applied partially or conditionally", cpp.node.lineno)


def _deep_update_names(du):
    """(target param, source param, key loop var, value loop var) of deep_update"""
    ps = [a.arg for a in du.node.args.args]
    if len(ps) < 2:
        raise AnalysisError("anchor changed: deep_update(target, source)")
    for n_ in ast.walk(du.node):
        if isinstance(n_, ast.For) and isinstance(n_.target, ast.Tuple) and len(n_.target.elts) == 2 and ast.unparse(n_.iter) == f"{ps[1]}.items()":
            return ps[0], ps[1], n_.target.elts[0].id, n_.target.elts[1].id
    raise AnalysisError("anchor changed: deep_update no longer iterates source.items()")


def rule_group_unit(ctx, px, root):
    R = "R-C13-GROUP-UNIT"
    ctx.rule(
        R,
        "the per-standard option groups (`defaults` of a language in properties.yaml) are siblings: every group sets "
        "the same keys, so that a shorthand such as c++17-pmr determines its whole documented group whatever a "
        "lower-precedence source said; every key of a group is a declared option",
    )
    import yaml

    # the built-in configuration as the loader reads it: every *.yaml document of the nunavut.lang package (merged in listing order), or
    # the documents it names
    lang_dir = root / "src" / "nunavut" / "lang"
    shipped = sorted(p_.name for p_ in lang_dir.glob("*.yaml"))
    lc_ = px.cls("nunavut.lang._language", "LanguageClassLoader")
    unit_ = [lc_.methods["_load_config"]]
    for c_ in ast.walk(unit_[0].node):
        if isinstance(c_, ast.Call) and isinstance(c_.func, ast.Attribute) and isinstance(c_.func.value, ast.Name) and c_.func.value.id in ("cls", "self") \
                and c_.func.attr in lc_.methods and lc_.methods[c_.func.attr] not in unit_:
            unit_.append(lc_.methods[c_.func.attr])
    globs = [c_ for u_ in unit_ for c_ in ast.walk(u_.node) if isinstance(c_, ast.Call) and ast.unparse(c_.func).endswith("iter_package_resources")
             and any(isinstance(a_, ast.Constant) and a_.value == ".yaml" for a_ in c_.args)]
    named = sorted({k_.value for u_ in unit_ for k_ in ast.walk(u_.node) if isinstance(k_, ast.Constant) and isinstance(k_.value, str) and k_.value.endswith(".yaml") and k_.value != ".yaml"})
    # ... also through a class / module constant that the loader mentions
    consts_ = {}
    for st_ in list(lc_.node.body) + list(lc_.module.tree.body):
        if isinstance(st_, ast.Assign) and len(st_.targets) == 1 and isinstance(st_.targets[0], ast.Name) and isinstance(st_.value, ast.Constant) \
                and isinstance(st_.value.value, str) and st_.value.value.endswith(".yaml"):
            consts_[st_.targets[0].id] = st_.value.value
    for u_ in unit_:
        for n_ in ast.walk(u_.node):
            nm_ = n_.attr if isinstance(n_, ast.Attribute) else (n_.id if isinstance(n_, ast.Name) else None)
            if nm_ in consts_:
                named = sorted(set(named) | {consts_[nm_]})
    read = shipped if globs else [n_ for n_ in named if (lang_dir / n_).is_file()]
    if not read:
        raise AnalysisError("anchor missing: the built-in configuration documents LanguageClassLoader._load_config reads")
    unread = sorted(set(shipped) - set(read))
    ctx.ob(R, unit_[0].module.rel, f"{unit_[0].short} :: reads every configuration document the package ships ({', '.join(shipped)})", not unread,
           "" if not unread else f"{unread} ship with the package but are never read: what they define (language-standard presets, options) silently does not exist",
           unit_[0].node.lineno)

    def _merge(a_, b_):
        for k_, v_ in (b_ or {}).items():
            if isinstance(v_, dict) and isinstance(a_.get(k_), dict):
                _merge(a_[k_], v_)
            else:
                a_[k_] = v_
        return a_
    cfg = {}
    for n_ in read:
        _merge(cfg, yaml.safe_load((lang_dir / n_).read_text()) or {})
    # option keys that a command-line argument sets explicitly: `<dict>["<declared option>"] = ...` anywhere in the argparse runner
    declared = set()
    for body in cfg.values():
        declared |= set(((body or {}).get("options") or {}).keys())
    cli_set = {}
    for f in px.all_funcs:
        if f.module.name != "nunavut.cli.runners":
            continue
        for x in ast.walk(f.node):
            if isinstance(x, ast.Subscript) and isinstance(x.ctx, ast.Store) and isinstance(x.slice, ast.Constant) and x.slice.value in declared:
                cli_set.setdefault(x.slice.value, f.short)
        # `for name in (<option names>): options[name] = ...` - the names may sit in a class-level table
        for lp in ast.walk(f.node):
            if not (isinstance(lp, ast.For) and isinstance(lp.target, ast.Name)):
                continue
            it = lp.iter
            if isinstance(it, ast.Attribute) and isinstance(it.value, ast.Name) and it.value.id in ("self", "cls") and f.cls is not None:
                for st_ in f.cls.node.body:
                    tg_ = st_.targets[0] if isinstance(st_, ast.Assign) else (st_.target if isinstance(st_, ast.AnnAssign) else None)
                    if isinstance(tg_, ast.Name) and tg_.id == it.attr and getattr(st_, "value", None) is not None:
                        it = st_.value
            if isinstance(it, (ast.Tuple, ast.List)) and all(isinstance(e, ast.Constant) and isinstance(e.value, str) for e in it.elts):
                if any(isinstance(x, ast.Subscript) and isinstance(x.ctx, ast.Store) and isinstance(x.slice, ast.Name) and x.slice.id == lp.target.id for x in ast.walk(lp)):
                    for e in it.elts:
                        if e.value in declared:
                            cli_set.setdefault(e.value, f.short)
    ctx.unit("options_set_by_command_line_arguments", sorted(cli_set))
    if len(cli_set) < 4:
        raise AnalysisError("anchor missing: the command-line arguments that are copied into the language options")
    n = 0
    for sect, body in cfg.items():
        groups = (body or {}).get("defaults") or {}
        if not groups:
            continue
        opts = set(((body or {}).get("options") or {}).keys())
        for name, g in sorted(groups.items()):
            # the group is written over the merged options when its shorthand is selected (cpp _validate_language_options): a key that
            # the command line can set explicitly must not be part of it, or the shorthand's copy displaces the explicit value
            clash = sorted(k for k in g.keys() if k in cli_set and k != "std")
            ctx.ob(R, "src/nunavut/lang/properties.yaml", f"{sect}.defaults.{name} contains no option that has a command-line argument of its own", not clash,
                   "" if not clash else f"the group carries {clash} (YAML merge keys are expanded on load): selecting `{name}` writes these built-in values over "
                   f"the ones given explicitly, e.g. `--{clash[0].replace('_', '-')}`")
        union = set()
        for g in groups.values():
            union |= set(g.keys())
        for name, g in sorted(groups.items()):
            n += 1
            missing = sorted(union - set(g.keys()))
            ctx.ob(R, "src/nunavut/lang/properties.yaml", f"{sect}.defaults.{name} sets the full group ({len(union)} keys)", not missing,
                   "" if not missing else f"does not set {missing}, which sibling groups do: selecting `{name}` explicitly leaves whatever an "
                   "earlier configuration file or another shorthand put there - the shorthand no longer sets its group as a unit")
            unknown = sorted(set(g.keys()) - opts)
            ctx.ob(R, "src/nunavut/lang/properties.yaml", f"{sect}.defaults.{name} uses declared options only", not unknown,
                   "" if not unknown else f"unknown option keys {unknown}")
    ctx.floor(R, n, 2)


def rule_ownership(ctx, px):
    R = "R-C13-OWNERSHIP"
    ctx.rule(
        R,
        "deep_update never stores a mapping reachable from `source` into `target` (every mapping stored is freshly "
        "built, target-owned or a deep copy); nothing outside LanguageConfig writes _sections; every builder owns a "
        "fresh loader and configuration (no module/class level configuration object, no cache on _load_config)",
    )
    du = px.func(UTIL, "deep_update")
    d_t, d_s, d_k, d_v = _deep_update_names(du)
    n = 0
    for st, gd in pyfront.walk_guarded(du.node.body):
        terms = pyfront.guard_terms(gd)
        if isinstance(st, ast.Assign):
            tgt = ast.unparse(st.targets[0])
            if not (tgt == d_t or tgt.startswith(f"{d_t}[")):
                continue
            n += 1
            v = st.value
            vt = ast.unparse(v)
            if isinstance(v, ast.Call) and ast.unparse(v.func) == "deep_update":
                a0 = ast.unparse(v.args[0]) if v.args else ""
                owned = (f"{d_t}.get({d_k}, {{}})", f"{d_t}[{d_k}]", "{}", "dict()", f"{d_t}.setdefault({d_k}, {{}})")

                def target_owned(e, depth=0):
                    """the recursion target is the target's own entry or a fresh map - also through a local and a conditional"""
                    if ast.unparse(e) in owned:
                        return True
                    if isinstance(e, ast.IfExp):
                        return target_owned(e.body, depth + 1) and target_owned(e.orelse, depth + 1)
                    if isinstance(e, ast.Name) and depth < 3:
                        vals = [n_.value for n_ in ast.walk(du.node) if isinstance(n_, ast.Assign) and any(isinstance(t_, ast.Name) and t_.id == e.id for t_ in n_.targets)]
                        return bool(vals) and all(target_owned(x, depth + 1) for x in vals)
                    return False
                ok = bool(v.args) and target_owned(v.args[0])
                ctx.ob(R, du.module.rel, f"{du.short} :: {tgt} = deep_update({a0}, ...)", ok,
                       "recursion into a fresh or target-owned mapping" if ok else "recursion target may be source-owned", st.lineno)
            elif isinstance(v, ast.Call) and ast.unparse(v.func) in ("copy.deepcopy", "deepcopy"):
                ctx.ob(R, du.module.rel, f"{du.short} :: {tgt} = {vt}", True, "deep copy", st.lineno)
            elif isinstance(v, ast.Call) and (ast.unparse(v.func) in ("copy.copy", "dict", "copy") or (isinstance(v.func, ast.Attribute) and v.func.attr == "copy")):
                ctx.ob(R, du.module.rel, f"{du.short} :: {tgt} = {vt}", False,
                       "shallow copy of a source mapping: its nested maps are aliased into the merged configuration and "
                       "are mutated by later merges (the source document changes)", st.lineno)
            else:
                src_derived = any(isinstance(x, ast.Name) and x.id in (d_s, d_v) for x in ast.walk(v))
                scalar = any(f"isinstance({d_v}" in e and "Mapping" in e and not p for e, p in terms)
                ok = (not src_derived) or scalar
                ctx.ob(R, du.module.rel, f"{du.short} :: {tgt} = {vt}", ok,
                       "" if ok else "a source-side mapping is stored into the target by reference", st.lineno)
    for r_ in ast.walk(du.node):
        if isinstance(r_, ast.Return) and isinstance(r_.value, ast.Call) and ast.unparse(r_.value.func) in ("copy.deepcopy", "deepcopy"):
            n += 1
            ctx.ob(R, du.module.rel, f"{du.short} :: return {ast.unparse(r_.value)}", True, "deep copy", r_.lineno)
    ctx.floor(R, n, 2)
    # who writes _sections
    for m in px.modules.values():
        for f in px.all_funcs:
            if f.module is not m:
                continue
            for x in ast.walk(f.node):
                if isinstance(x, ast.Attribute) and x.attr == "_sections" and not (
                        f.cls is not None and f.cls.name == "LanguageConfig"):
                    ctx.ob(R, m.rel, f"{f.short} :: touches LanguageConfig._sections", False, "merged configuration accessed outside its owner", x.lineno)
    lc = px.cls("nunavut.lang._config", "LanguageConfig")
    init = lc.methods["__init__"]
    ok = any(isinstance(s, (ast.Assign, ast.AnnAssign)) and "self._sections" in ast.unparse(s) and ast.unparse(s.value) in ("{}", "dict()")
             for s in ast.walk(init.node) if isinstance(s, (ast.Assign, ast.AnnAssign)))
    ctx.ob(R, lc.module.rel, "LanguageConfig.__init__ :: fresh _sections per instance", ok, "", init.node.lineno)
    # no module-level or class-level LanguageConfig / LanguageClassLoader instances
    bad = []
    for m in px.modules.values():
        bodies = [(m.tree.body, "<module>")] + [(c.node.body, c.name) for c in m.classes.values()]
        for body, where in bodies:
            for st in body:
                if isinstance(st, (ast.Assign, ast.AnnAssign)) and st.value is not None:
                    for c in ast.walk(st.value):
                        if isinstance(c, ast.Call) and ast.unparse(c.func).split(".")[-1] in ("LanguageConfig", "LanguageClassLoader", "LanguageContextBuilder"):
                            bad.append((m.rel, where, st.lineno))
    ctx.ob(R, "src/nunavut", "no module- or class-level configuration object", not bad, "" if not bad else f"shared instances at {bad}")
    b = px.cls("nunavut.lang", "LanguageContextBuilder")
    init = b.methods["__init__"]
    ok = any(isinstance(s, ast.Assign) and ast.unparse(s.targets[0]) == "self._ln_loader" and ast.unparse(s.value) == "LanguageClassLoader()" for s in ast.walk(init.node))
    ctx.ob(R, b.module.rel, "LanguageContextBuilder.__init__ :: owns a fresh LanguageClassLoader", ok, "", init.node.lineno)
    ok = any(isinstance(s, (ast.Assign, ast.AnnAssign)) and "self._target_language_config" in ast.unparse(s) and ast.unparse(s.value) == "{}" for s in ast.walk(init.node) if isinstance(s, (ast.Assign, ast.AnnAssign)))
    ctx.ob(R, b.module.rel, "LanguageContextBuilder.__init__ :: fresh override map", ok, "", init.node.lineno)
    lcl = px.cls("nunavut.lang._language", "LanguageClassLoader")
    ld = lcl.methods["_load_config"]
    cached = [d for d in ld.decorators if "cache" in d]
    ctx.ob(R, ld.module.rel, f"{ld.short} :: not memoised (each loader parses its own copy)", not cached, "" if not cached else f"decorated with {cached}", ld.node.lineno)
    ok = any(isinstance(c, ast.Call) and ast.unparse(c.func) == "LanguageConfig" for c in ast.walk(ld.node))
    ctx.ob(R, ld.module.rel, f"{ld.short} :: builds a new LanguageConfig", ok, "", ld.node.lineno)
    # ... nor memoised by hand: no method of the configuration classes stores anything on the class or in a module global (a cache of
    # parsed sections hands the first builder's live maps - with everything merged into them since - to every later builder)
    shared = []
    for k in (lcl, px.cls("nunavut.lang._config", "LanguageConfig"), b):
        cnames = {k.name, "cls"}
        for m_ in k.methods.values():
            globs = {nm for g_ in ast.walk(m_.node) if isinstance(g_, ast.Global) for nm in g_.names}
            for n_ in ast.walk(m_.node):
                tgs = n_.targets if isinstance(n_, ast.Assign) else ([n_.target] if isinstance(n_, (ast.AugAssign, ast.AnnAssign)) else [])
                for t_ in tgs:
                    base = t_
                    while isinstance(base, ast.Subscript):
                        base = base.value
                    if isinstance(base, ast.Attribute):
                        root = ast.unparse(base.value)
                        if root in cnames or root in ("type(self)", "self.__class__"):
                            shared.append(f"{m_.short}: {ast.unparse(t_)}")
                    elif isinstance(base, ast.Name) and base.id in globs:
                        shared.append(f"{m_.short}: global {base.id}")
                if isinstance(n_, ast.Call) and isinstance(n_.func, ast.Attribute) and n_.func.attr in ("update", "setdefault", "append", "add", "__setitem__") \
                        and isinstance(n_.func.value, ast.Attribute) and ast.unparse(n_.func.value.value) in cnames | {"type(self)", "self.__class__"}:
                    shared.append(f"{m_.short}: {ast.unparse(n_.func)}()")
    ctx.ob(R, "src/nunavut/lang", "the configuration classes keep no state on the class or in module globals", not shared,
           "" if not shared else f"{shared}: state written here outlives the builder; a later LanguageContextBuilder in the same process starts from what an "
           "earlier one merged instead of from the built-in defaults")
    init = lcl.methods["__init__"]
    ok = any(isinstance(s, (ast.Assign, ast.AnnAssign)) and "self._config" in ast.unparse(s) and ast.unparse(s.value) == "None" for s in ast.walk(init.node) if isinstance(s, (ast.Assign, ast.AnnAssign)))
    ctx.ob(R, lcl.module.rel, "LanguageClassLoader.__init__ :: starts without configuration", ok, "", init.node.lineno)


def rule_config_values_not_mutated(ctx, px):
    """what the configuration hands out (lists and maps of get_config_value*, get_option[s], sections) still belongs to the configuration -
    and, for an override, to the caller's document: a consumer that extends it in place changes the configuration for every later
    reader and writes into the document it was loaded from"""
    R = "R-C13-OWNERSHIP"
    READERS = ("get_config_value_as_list", "get_config_value_as_dict", "get_config_value", "get_option", "get_options", "sections", "get_config_value_as_bool")
    MUT = ("append", "extend", "insert", "update", "pop", "remove", "clear", "sort", "setdefault", "popitem", "reverse", "add", "discard")
    k = 0
    for f in px.all_funcs:
        if f.outer is not None or not f.module.name.startswith("nunavut") or f.module.name.startswith("nunavut.lang._config"):
            continue
        held = {}
        for n in ast.walk(f.node):
            if isinstance(n, ast.Assign) and len(n.targets) == 1 and isinstance(n.value, ast.Call) and isinstance(n.value.func, ast.Attribute) \
                    and n.value.func.attr in READERS and n.value.func.attr != "get_config_value_as_bool":
                held[ast.unparse(n.targets[0])] = n
        if not held:
            continue
        scope = [f] if not any(h_.startswith("self.") for h_ in held) or f.cls is None else list(f.cls.methods.values())
        for name, src in held.items():
            k += 1
            bad = None
            for g in (scope if name.startswith("self.") else [f]):
                for n in ast.walk(g.node):
                    if isinstance(n, ast.AugAssign) and ast.unparse(n.target) == name:
                        bad = (g, n, f"`{ast.unparse(n)[:70]}` extends it in place")
                    elif isinstance(n, ast.Call) and isinstance(n.func, ast.Attribute) and n.func.attr in MUT and ast.unparse(n.func.value) == name:
                        bad = (g, n, f"`{ast.unparse(n)[:70]}` changes it in place")
                    elif isinstance(n, (ast.Assign, ast.Delete)) and any(isinstance(t_, ast.Subscript) and ast.unparse(t_.value) == name for t_ in n.targets):
                        bad = (g, n, f"`{ast.unparse(n)[:70]}` stores into it")
            # a re-binding to a fresh object (x = x + y, x = list(x)) before the mutation would make it the consumer's own; the simple,
            # common case is judged: any in-place change of a name that holds the configuration's object and is never re-bound
            rebinds = [n for g in (scope if name.startswith("self.") else [f]) for n in ast.walk(g.node)
                       if isinstance(n, ast.Assign) and n is not src and any(ast.unparse(t_) == name for t_ in n.targets)]
            if bad is not None and rebinds and all(r_.lineno < bad[1].lineno for r_ in rebinds if bad[0] is f) and bad[0] is f:
                bad = None
            ctx.ob(R, f.module.rel, f"{f.short} :: `{name}` (from {src.value.func.attr}) is read, not changed in place", bad is None,
                   "" if bad is None else f"{bad[0].short}: {bad[2]}: the list / map belongs to the language configuration (and to the override document it came from) - "
                   "later readers, other contexts built from the same document and the caller's document see the change", (bad[1].lineno if bad else src.lineno))
    ctx.floor(R + ":config-values", k, 5)


def run(ctx):
    ctx.explanation = (
        "C13 is decided on the structure of the merge pipeline: the argparse table is compared with the way the CLI "
        "copies arguments into language options (DefaultValue wrapping), the order of merging (built-ins, files in "
        "order, overrides in create()) is read from the builder, and deep_update is checked for aliasing of source "
        "mappings and for its single scalar-assignment route.  Merge results over arbitrary maps are not computed."
    )
    ctx.declined = ["the merge result for all nested maps and all source orders (value-level algebra of deep_update)",
                    "re-use of one builder object for several create() calls with changed overrides (the builder shares its configuration with the contexts it creates)"]
    px = pyfront.PyIndex(ctx.root)
    rule_default_wrap(ctx, px)
    rule_order(ctx, px)
    rule_group_unit(ctx, px, ctx.root)
    rule_ownership(ctx, px)
    rule_config_values_not_mutated(ctx, px)
