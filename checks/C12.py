"""
C12 - regeneration over existing output is safe.  Static: overwrite gate dominates every create/truncate; gate shape;
allow_overwrite forwarded unmodified; SetFileMode appended unconditionally and last; file post-processors after close.
"""
import ast

from nvsa import effects, pyfront
from nvsa.report import AnalysisError

GEN_MOD = "nunavut.jinja"
RUN_MOD = "nunavut.cli.runners"
CREATE_KINDS = {"write", "copy", "move", "create", "touch", "delete"}


def _path_root(expr) -> str:
    """output_path / str(output_path) / output_path.parent / pathlib.Path(target) -> 'output_path'"""
    while True:
        if isinstance(expr, ast.Call) and expr.args and effects.dotted(expr.func) in ("str", "pathlib.Path", "Path", "os.fspath"):
            expr = expr.args[0]
        elif isinstance(expr, ast.Attribute) and expr.attr in ("parent",):
            expr = expr.value
        else:
            break
    return ast.unparse(expr)


def _fd_origin(func_node, name: str):
    """path argument of the os.open(...) call a descriptor variable was assigned from"""
    for x in ast.walk(func_node):
        if isinstance(x, ast.Assign) and ast.unparse(x.targets[0]) == name and isinstance(x.value, ast.Call) \
                and (effects.dotted(x.value.func) or "").endswith("os.open") and x.value.args:
            return x.value.args[0]
    return None


def _effect_target(c: ast.Call, kind: str, what: str, func_node=None):
    """The path expression an effect creates/modifies."""
    if what.startswith("open(") and c.args and isinstance(c.args[0], ast.Name) and func_node is not None:
        o = _fd_origin(func_node, c.args[0].id)
        if o is not None:
            return o
    if what.startswith("open("):
        if isinstance(c.func, ast.Attribute) and effects.dotted(c.func) not in ("io.open", "codecs.open"):
            return c.func.value
        return c.args[0] if c.args else None
    if what.startswith("shutil.copy") or what in ("shutil.move", "os.rename", "os.replace"):
        return c.args[1] if len(c.args) > 1 else None
    if what.startswith("."):
        return c.func.value
    return c.args[0] if c.args else None


def _gate_calls(func_node):
    out = []
    for c in ast.walk(func_node):
        if isinstance(c, ast.Call) and isinstance(c.func, ast.Attribute) and c.func.attr == "_handle_overwrite":
            out.append(c)
    return out


def rule_gate(ctx, px):
    R = "R-C12-GATE"
    ctx.rule(
        R,
        "every call that creates, truncates or replaces an output file in the generator classes is dominated, in the "
        "same function, by self._handle_overwrite(<that path>, allow_overwrite) - or the function is entered only "
        "from call sites that are so dominated for the path they pass",
    )
    m = px.module(GEN_MOD)
    n = 0
    gen_classes = [c for c in m.classes.values() if c.name in ("CodeGenerator", "DSDLCodeGenerator", "SupportGenerator")
                   or any(b.name == "CodeGenerator" for b in c.bases)]
    if len(gen_classes) < 3:
        raise AnalysisError("anchor missing: generator classes")

    # a private method that passes its own (path, allow_overwrite) parameters through the gate before anything else can happen is the
    # gate under another name: {method name: (index of the path argument, index of the allow_overwrite argument)}
    wrappers = {}
    for cls_ in gen_classes:
        for g_ in cls_.methods.values():
            if g_.name == "_handle_overwrite" or not g_.name.startswith("_"):
                continue
            ps_ = [a.arg for a in g_.node.args.args][1:]
            for st_ in g_.node.body:      # top level only: unconditional
                if isinstance(st_, ast.Expr) and isinstance(st_.value, ast.Constant):
                    continue
                c_ = st_.value if isinstance(st_, ast.Expr) else None
                if isinstance(c_, ast.Call) and isinstance(c_.func, ast.Attribute) and c_.func.attr == "_handle_overwrite" and len(c_.args) >= 2 \
                        and isinstance(c_.args[0], ast.Name) and isinstance(c_.args[1], ast.Name) and c_.args[0].id in ps_ and c_.args[1].id in ps_:
                    wrappers[g_.name] = (ps_.index(c_.args[0].id), ps_.index(c_.args[1].id))
                break       # the gate must be the first thing the wrapper does

    def gate_dominates(f, call, path_root):
        pm = pyfront.parent_map(f.node)
        st = pyfront.enclosing_stmt(call, pm)
        dom = pyfront.dominating_stmts(f.node, st)
        if dom is None:
            return False, "statement not found"
        for d in dom:
            if isinstance(d, (ast.If, ast.For, ast.While, ast.Try, ast.With, ast.FunctionDef)):
                # compound statement on the ancestor chain: only its header could hold the gate
                cands = pyfront.expr_calls(d)
            else:
                cands = [c for c in ast.walk(d) if isinstance(c, ast.Call)]
            for g in cands:
                if isinstance(g.func, ast.Attribute) and g.func.attr == "_handle_overwrite" and len(g.args) >= 2:
                    if _path_root(g.args[0]) == path_root and ast.unparse(g.args[1]) == "allow_overwrite":
                        return True, "gate on the same path precedes on every path"
                if isinstance(g.func, ast.Attribute) and g.func.attr in wrappers and isinstance(g.func.value, ast.Name) and g.func.value.id in ("self", "cls"):
                    ip_, ia_ = wrappers[g.func.attr]
                    if max(ip_, ia_) < len(g.args) and _path_root(g.args[ip_]) == path_root and ast.unparse(g.args[ia_]) == "allow_overwrite":
                        return True, f"gate (through {g.func.attr}) on the same path precedes on every path"
        return False, f"no dominating _handle_overwrite({path_root}, allow_overwrite)"

    for cls in gen_classes:
        for f in cls.methods.values():
            if f.name == "_handle_overwrite":
                continue
            for c, kind, what in effects.fs_effects(m, f.node):
                if kind not in CREATE_KINDS:
                    continue
                tgt = _effect_target(c, kind, what, f.node)
                if tgt is None:
                    ctx.ob(R, m.rel, f"{f.short} :: {what}", False, "cannot determine the target path", c.lineno)
                    n += 1
                    continue
                root = _path_root(tgt)
                n += 1
                ok, why = gate_dominates(f, c, root)
                if not ok:
                    # entered only through gated call sites?  parameter `root` must be passed a gated path by every caller
                    params = [a.arg for a in f.node.args.args]
                    if root in params:
                        sites = []
                        for caller in px.all_funcs:
                            for cc in ast.walk(caller.node):
                                if isinstance(cc, ast.Call) and isinstance(cc.func, ast.Attribute) and cc.func.attr == f.name \
                                        and f in px.resolve_call(caller, cc):
                                    sites.append((caller, cc))
                        if sites:
                            all_ok = True
                            whys = []
                            for caller, cc in sites:
                                idx = params.index(root) - (0 if any("staticmethod" in d for d in f.decorators) else 1)
                                arg = None
                                for k in cc.keywords:
                                    if k.arg == root:
                                        arg = k.value
                                if arg is None and 0 <= idx < len(cc.args):
                                    arg = cc.args[idx]
                                if arg is None:
                                    all_ok = False
                                    whys.append(f"{caller.short}: argument not found")
                                    continue
                                ok2, why2 = gate_dominates(caller, cc, _path_root(arg))
                                all_ok = all_ok and ok2
                                whys.append(f"{caller.short}: {why2}")
                            ok, why = all_ok, "entered only via " + "; ".join(whys)
                ctx.ob(R, m.rel, f"{f.short} :: {what} -> {root}", ok,
                       why if ok else f"output file may be created/truncated without passing the overwrite gate: {why}", c.lineno)
    ctx.floor(R, n, 3)


def rule_truncate(ctx, px):
    R = "R-C12-TRUNCATE"
    ctx.rule(
        R,
        "every output file is opened so that earlier content cannot survive: builtin open(<path>, 'w') (create or "
        "truncate) or shutil.copy; a low-level os.open must carry O_TRUNC (or be exclusive), and wrapping an existing "
        "descriptor does not truncate",
    )
    m = px.module(GEN_MOD)
    n = 0
    for f in px.all_funcs:
        if f.module is not m:
            continue
        for c in ast.walk(f.node):
            if not isinstance(c, ast.Call):
                continue
            d = effects.dotted(c.func)
            r = effects.resolve_dotted(m, d) if d else None
            if r == "os.open":
                n += 1
                # collect the flag expression (second argument), following one local assignment and |= updates
                flags_txt = ast.unparse(c.args[1]) if len(c.args) > 1 else ""
                if len(c.args) > 1 and isinstance(c.args[1], ast.Name):
                    parts = []
                    for x in ast.walk(f.node):
                        if isinstance(x, ast.Assign) and ast.unparse(x.targets[0]) == c.args[1].id:
                            parts.append(("always", ast.unparse(x.value)))
                        if isinstance(x, ast.AugAssign) and ast.unparse(x.target) == c.args[1].id:
                            g = pyfront.guards_of(f.node, x)
                            parts.append(("always" if not g else "conditional", ast.unparse(x.value)))
                    flags_txt = " | ".join(v for k, v in parts if k == "always")
                ok = "O_TRUNC" in flags_txt or "O_EXCL" in flags_txt
                ctx.ob(R, m.rel, f"{f.short} :: os.open({flags_txt or '?'})", ok,
                       "" if ok else "an existing output file is opened without O_TRUNC: when the new content is shorter the tail of "
                       "the old file survives regeneration", c.lineno)
            elif r in ("open", "io.open", "os.fdopen") and c.args:
                a0 = c.args[0]
                is_path = isinstance(a0, ast.Call) or (isinstance(a0, (ast.Name, ast.Attribute)) and not ast.unparse(a0).lower().startswith("fd"))
                mode = effects._open_mode(c) if r != "os.fdopen" else (ast.literal_eval(c.args[1]) if len(c.args) > 1 and isinstance(c.args[1], ast.Constant) else "r")
                if mode and set(mode) & set("wax+"):
                    n += 1
                    # a descriptor (name produced by os.open) is not a path
                    from_os_open = isinstance(a0, ast.Name) and any(
                        isinstance(x, ast.Assign) and ast.unparse(x.targets[0]) == a0.id and isinstance(x.value, ast.Call)
                        and effects.resolve_dotted(m, effects.dotted(x.value.func) or "") == "os.open" for x in ast.walk(f.node))
                    ok = from_os_open or "w" in mode
                    ctx.ob(R, m.rel, f"{f.short} :: {r}({ast.unparse(a0)}, {mode!r})", ok,
                           ("wraps a descriptor: truncation is decided by the os.open flags (own obligation)" if from_os_open else "create-or-truncate")
                           if ok else f"mode {mode!r} does not truncate an existing file", c.lineno)
    ctx.floor(R, n, 2)


def rule_gate_shape(ctx, px):
    R = "R-C12-GATE-SHAPE"
    ctx.rule(
        R,
        "path-wise over _handle_overwrite: every path on which the file exists and allow_overwrite is false ends in "
        "raise; the mode is changed only on paths where allow_overwrite is true and only by adding bits to the current "
        "mode; nothing else touches the file system",
    )
    f = px.func(GEN_MOD, "CodeGenerator._handle_overwrite")
    try:
        paths = pyfront.enumerate_paths(f.node.body)
    except ValueError:
        raise AnalysisError("_handle_overwrite has too many paths to enumerate")
    ctx.unit("handle_overwrite_paths", len(paths))

    def absent(terms):
        return any((e.endswith(".exists()") and not p) or (e.startswith("except ") and "FileNotFoundError" in e and p) for e, p in terms)

    n_chmod = 0
    for i, p in enumerate(paths):
        terms = p.terms()
        desc = " and ".join(("" if pol else "not ") + e for e, pol in terms) or "<always>"
        allow = ("allow_overwrite", True) in terms
        if p.outcome != "raise":
            ok = allow or absent(terms)
            ctx.ob(R, f.module.rel, f"{f.short} :: path [{desc}] -> {p.outcome}", ok,
                   "overwrite allowed or file absent" if ok else
                   "the gate lets the run proceed although the file may exist and allow_overwrite is false: its content and mode are then overwritten",
                   f.node.lineno)
        for st in p.stmts:
            if isinstance(st, (ast.If, ast.With, ast.For, ast.While)):
                continue
            for c, kind, what in effects.fs_effects(f.module, st):
                if kind == "chmod":
                    n_chmod += 1
                    ctx.ob(R, f.module.rel, f"{f.short} :: {what} on path [{desc}]", allow,
                           "" if allow else "mode of an existing file is changed although overwriting is not allowed", c.lineno)
                    mode = pyfront.subst_locals(f.node, c.args[0]) if c.args else None
                    okm = False
                    if isinstance(mode, ast.BinOp) and isinstance(mode.op, ast.BitOr):
                        def _or_operands(e):   # a | b | c
                            if isinstance(e, ast.BinOp) and isinstance(e.op, ast.BitOr):
                                return _or_operands(e.left) + _or_operands(e.right)
                            return [e]
                        for side in _or_operands(mode):
                            t = ast.unparse(side)
                            if "st_mode" in t:
                                okm = True
                            elif isinstance(side, ast.Name):
                                okm = okm or any(isinstance(x, ast.Assign) and ast.unparse(x.targets[0]) == side.id and "st_mode" in ast.unparse(x.value)
                                                 for x in ast.walk(f.node))
                    ctx.ob(R, f.module.rel, f"{f.short} :: chmod keeps existing bits (current mode | mask) on path [{desc}]", okm,
                           "" if okm else f"mode expression is {ast.unparse(mode) if mode else None}", c.lineno)
                else:
                    ctx.ob(R, f.module.rel, f"{f.short} :: {what}", False, f"unexpected file-system effect ({kind}) in the gate", c.lineno)
    has_raise = any(p.outcome == "raise" for p in paths)
    ctx.ob(R, f.module.rel, f"{f.short} :: some path refuses (raises)", has_raise, "" if has_raise else "the gate never refuses", f.node.lineno)
    ctx.floor(R, n_chmod, 1)
    # allow_overwrite is not reassigned anywhere and is forwarded unmodified
    n = 0
    for g in px.all_funcs:
        params = [a.arg for a in g.node.args.args + g.node.args.kwonlyargs]
        if "allow_overwrite" not in params:
            continue
        n += 1
        re = [x for x in ast.walk(g.node) if isinstance(x, ast.Name) and x.id == "allow_overwrite" and isinstance(x.ctx, ast.Store)]
        ctx.ob(R, g.module.rel, f"{g.short}: allow_overwrite not reassigned", not re, "", g.node.lineno)
        for c in ast.walk(g.node):
            if not isinstance(c, ast.Call):
                continue
            callees = [h for h in px.resolve_call(g, c, by_name_fallback=True)
                       if "allow_overwrite" in [a.arg for a in h.node.args.args + h.node.args.kwonlyargs]]
            if not callees:
                continue
            h = callees[0]
            names = [a.arg for a in h.node.args.args]
            if names and names[0] in ("self", "cls"):
                names = names[1:]
            val = pyfront.call_keywords(g.node, c).get("allow_overwrite")
            if val is None and "allow_overwrite" in names and names.index("allow_overwrite") < len(c.args):
                val = c.args[names.index("allow_overwrite")]
            if val is None:
                # not passed at all: the callee's default decides, whatever the caller was told
                ctx.ob(R, g.module.rel, f"{g.short} -> {h.short}(allow_overwrite=<omitted>)", False,
                       "allow_overwrite is not forwarded: the callee falls back to its default, so a run with --no-overwrite rewrites (or a permissive run refuses) "
                       "the files written through this call", c.lineno)
                continue
            txt = ast.unparse(val)
            ok = txt == "allow_overwrite"
            ctx.ob(R, g.module.rel, f"{g.short} -> {h.short}(allow_overwrite={txt})", ok,
                   "" if ok else "allow_overwrite is not forwarded unmodified", c.lineno)
    ctx.floor(R + ":params", n, 5)
    # CLI: allow_overwrite = not no_overwrite on both generators
    gen = px.func(RUN_MOD, "ArgparseRunner._generate")
    k = 0
    for c in ast.walk(gen.node):
        if isinstance(c, ast.Call) and isinstance(c.func, ast.Attribute) and c.func.attr == "generate_all":
            k += 1
            kw = {k_: ast.unparse(v_) for k_, v_ in pyfront.call_keywords(gen.node, c).items()}
            ok = kw.get("allow_overwrite") == "not self._args.no_overwrite"
            ctx.ob(R, gen.module.rel, f"{gen.short} -> {ast.unparse(c.func)}(allow_overwrite)", ok,
                   "" if ok else f"allow_overwrite={kw.get('allow_overwrite')}", c.lineno)
    ctx.floor(R + ":cli", k, 2)


def rule_mode(ctx, px):
    R = "R-C12-MODE"
    ctx.rule(
        R,
        "SetFileMode is appended to the CLI post-processor list unconditionally and after every other append; file "
        "post-processors run after the output file is closed on every path of _generate_code and _copy_header, over "
        "the complete list",
    )
    f = px.func(RUN_MOD, "ArgparseRunner._build_post_processor_list_from_args")

    def entries(fn, e, depth=0):
        """the lists an expression can denote, one ordered sequence of (element expression, guards under which it is added, statement) per
        alternative (a private builder with several returns gives one alternative per return), or None when it cannot be followed: list
        literals, a local that is initialised and then appended to, `a + b`, the result of a private method"""
        if depth > 4:
            return None
        if isinstance(e, ast.List):
            return [[(pyfront.subst_locals(fn.node, x), (), e) for x in e.elts]]
        if isinstance(e, ast.BinOp) and isinstance(e.op, ast.Add):
            a_, b_ = entries(fn, e.left, depth + 1), entries(fn, e.right, depth + 1)
            return None if a_ is None or b_ is None else [x + y for x in a_ for y in b_][:16]
        if isinstance(e, ast.Call) and isinstance(e.func, ast.Attribute) and isinstance(e.func.value, ast.Name) and e.func.value.id in ("self", "cls") \
                and fn.cls is not None and e.func.attr in fn.cls.methods and not e.args and not e.keywords:
            h = fn.cls.methods[e.func.attr]
            rets_ = [r.value for r in ast.walk(h.node) if isinstance(r, ast.Return) and r.value is not None]
            alts = []
            for rv in rets_:
                sub = entries(h, rv, depth + 1)
                if sub is None:
                    return None
                alts += sub
            return alts[:16] or None
        if isinstance(e, ast.Call) and isinstance(e.func, ast.Name) and e.func.id == "list" and len(e.args) == 1:
            return entries(fn, e.args[0], depth + 1)
        if isinstance(e, ast.Name):
            out = None
            for st, g in pyfront.walk_guarded(fn.node.body):
                tg = st.targets[0] if isinstance(st, ast.Assign) and len(st.targets) == 1 else (st.target if isinstance(st, ast.AnnAssign) and st.value is not None else None)
                if isinstance(tg, ast.Name) and tg.id == e.id:
                    if g:
                        return None      # conditionally re-initialised
                    out = entries(fn, st.value, depth + 1)
                    if out is None:
                        return None
                elif isinstance(st, ast.Expr) and isinstance(st.value, ast.Call) and isinstance(st.value.func, ast.Attribute) \
                        and isinstance(st.value.func.value, ast.Name) and st.value.func.value.id == e.id and out is not None:
                    c = st.value
                    if c.func.attr == "append" and len(c.args) == 1:
                        out = [alt + [(pyfront.subst_locals(fn.node, c.args[0]), tuple(g), st)] for alt in out]
                    elif c.func.attr == "insert" and len(c.args) == 2 and isinstance(c.args[0], ast.Constant) and c.args[0].value == 0:
                        out = [[(pyfront.subst_locals(fn.node, c.args[1]), tuple(g), st)] + alt for alt in out]
                    elif c.func.attr == "extend" and len(c.args) == 1:
                        sub = entries(fn, c.args[0], depth + 1)
                        if sub is None:
                            return None
                        out = [alt + [(x, tuple(g) + tuple(g2), st) for x, g2, _s in sa] for alt in out for sa in sub][:16]
                    else:
                        return None
                elif isinstance(st, ast.AugAssign) and isinstance(st.target, ast.Name) and st.target.id == e.id and isinstance(st.op, ast.Add) and out is not None:
                    sub = entries(fn, st.value, depth + 1)
                    if sub is None:
                        return None
                    out = [alt + [(x, tuple(g) + tuple(g2), st) for x, g2, _s in sa] for alt in out for sa in sub][:16]
            return out
        return None

    rets = [r for r in ast.walk(f.node) if isinstance(r, ast.Return) and r.value is not None]
    seqs = entries(f, rets[0].value) if len(rets) == 1 else None
    ok = seqs is not None
    ctx.ob(R, f.module.rel, f"{f.short} :: returns the list it built", ok, "" if ok else "the returned value is not a list built from literals, appends, concatenations or private builders", f.node.lineno)
    for seq in (seqs or []):
        sfm = [k for k, (x, g, st) in enumerate(seq) if "SetFileMode(" in ast.unparse(x)]
        if not sfm:
            ctx.ob(R, f.module.rel, f"{f.short} :: SetFileMode appended", False, "SetFileMode is no longer added" + (" in one of the lists the builder can return" if len(seqs) > 1 else ""), f.node.lineno)
        else:
            x, g, st = seq[sfm[-1]]
            ctx.ob(R, f.module.rel, f"{f.short} :: SetFileMode appended unconditionally", len(g) == 0,
                   "" if not g else f"appended only under {pyfront.guard_terms(g)}", st.lineno)
            last = sfm[-1] == len(seq) - 1
            ctx.ob(R, f.module.rel, f"{f.short} :: SetFileMode is the last append", last,
                   "" if last else "another post-processor is added after SetFileMode (it would see/alter the final mode)", st.lineno)
            arg = ast.unparse(x.args[0]) if isinstance(x, ast.Call) and x.args else ""
            ok = "self._args.file_mode" in arg
            ctx.ob(R, f.module.rel, f"{f.short} :: SetFileMode(self._args.file_mode)", ok, "" if ok else arg, st.lineno)

    # file post-processors after close
    for qual in ("CodeGenerator._generate_code", "SupportGenerator._copy_header"):
        g = px.func(GEN_MOD, qual)
        # the file post-processor loop: `for pp in <list>: <path> = pp(<path>)` (the loop variable is applied as a function)
        loops = [n for n in ast.walk(g.node) if isinstance(n, ast.For) and isinstance(n.target, ast.Name) and isinstance(n.iter, ast.Name)
                 and any(isinstance(c, ast.Call) and isinstance(c.func, ast.Name) and c.func.id == n.target.id for c in ast.walk(n))]
        body_loop = None
        if not loops and g.cls is not None:
            # the loop may live in a private method that is handed the path and the list: its call stands where the loop stood
            for c_ in ast.walk(g.node):
                if isinstance(c_, ast.Call) and isinstance(c_.func, ast.Attribute) and isinstance(c_.func.value, ast.Name) and c_.func.value.id in ("self", "cls") \
                        and c_.func.attr.startswith("_"):
                    h_ = g.cls.mro_lookup(c_.func.attr)
                    if h_ is None:
                        continue
                    hl_ = [n for n in ast.walk(h_.node) if isinstance(n, ast.For) and isinstance(n.target, ast.Name) and isinstance(n.iter, ast.Name)
                           and any(isinstance(c2, ast.Call) and isinstance(c2.func, ast.Name) and c2.func.id == n.target.id for c2 in ast.walk(n))]
                    top_ = [st_ for st_ in h_.node.body if not (isinstance(st_, ast.Expr) and isinstance(st_.value, ast.Constant))]
                    if len(hl_) == 1 and all(st_ is hl_[0] or isinstance(st_, (ast.Return, ast.Assign, ast.AnnAssign)) for st_ in top_) \
                            and not any(x_ for x_ in effects.fs_effects(h_.module, h_.node)):
                        loops = [pyfront.enclosing_stmt(c_, pyfront.parent_map(g.node))]
                        body_loop = hl_[0]
        if len(loops) != 1:
            raise AnalysisError(f"anchor missing: loop applying the file post-processors in {qual} (found {len(loops)})")
        loop = loops[0]
        pm = pyfront.parent_map(g.node)
        # not nested in a `with open(...)`
        cur = pm.get(id(loop))
        inside_with = False
        while cur is not None and cur is not g.node:
            if isinstance(cur, ast.With) and any("open(" in ast.unparse(i.context_expr) for i in cur.items):
                inside_with = True
            cur = pm.get(id(cur))
        ctx.ob(R, g.module.rel, f"{g.short} :: file post-processors run outside `with open`", not inside_with,
               "" if not inside_with else "file post-processors run while the output file is still open", loop.lineno)
        # ... only after the overwrite gate let the run through: not in a finally/except block (which also runs when the gate raised)
        cur, prev, in_cleanup = pm.get(id(loop)), loop, False
        while cur is not None and cur is not g.node:
            if isinstance(cur, ast.Try) and (any(prev is x for x in cur.finalbody) or any(prev is h for h in cur.handlers)):
                in_cleanup = True
            if isinstance(cur, ast.ExceptHandler):
                in_cleanup = True
            prev, cur = cur, pm.get(id(cur))
        ctx.ob(R, g.module.rel, f"{g.short} :: file post-processors are not run from a finally/except block", not in_cleanup,
               "" if not in_cleanup else "the post-processors (SetFileMode, external programs) also run when _handle_overwrite refused the file: a pre-existing "
               "file's mode/content is changed although overwriting is not allowed", loop.lineno)
        # ... and on every successful non-dry run: no return precedes them except for a dry run
        early = []
        for st, gd in pyfront.walk_guarded(g.node.body):
            if isinstance(st, ast.Return) and st.lineno < loop.lineno:
                terms = pyfront.guard_terms(gd)
                if not any(e.endswith("is_dryrun") and pol for e, pol in terms):
                    early.append((st.lineno, terms))
        ctx.ob(R, g.module.rel, f"{g.short} :: no successful run leaves before the file post-processors", not early,
               "" if not early else f"return at line {early[0][0]} under {early[0][1]}: on that path SetFileMode is never applied, the file keeps the mode an "
               "earlier run gave it", loop.lineno)
        # every write effect of the function precedes the loop (loop comes after in statement order)
        dom = pyfront.dominating_stmts(g.node, loop) or []
        dom_ids = set()
        for d in dom:
            for x in ast.walk(d):
                dom_ids.add(id(x))
        effs = [(c, k, w) for c, k, w in effects.fs_effects(g.module, g.node) if k in ("write", "copy")]
        for c, k, w in effs:
            # the effect is either in a dominating statement, or in a branch of a dominating compound statement
            before = c.lineno < loop.lineno
            ctx.ob(R, g.module.rel, f"{g.short} :: {w} precedes the file post-processor loop", before,
                   "" if before else "content is written after the file post-processors ran", c.lineno)
        # loop body calls the processor on the path and no `break`
        bl = body_loop if body_loop is not None else loop
        body_calls = [c for c in ast.walk(bl) if isinstance(c, ast.Call) and isinstance(c.func, ast.Name)
                      and c.func.id == ast.unparse(bl.target)]
        has_break = any(isinstance(x, (ast.Break, ast.Continue, ast.Return)) for x in ast.walk(bl))
        ok = len(body_calls) == 1 and not has_break and len(bl.body) == 1
        ctx.ob(R, g.module.rel, f"{g.short} :: every file post-processor is invoked", ok,
               "" if ok else "loop skips or filters processors", loop.lineno)
    # classification of post-processors covers the whole list: for pp in self._post_processors -> line/file/else raise
    for qual in ("CodeGenerator._generate_code", "SupportGenerator.generate_all"):
        g = px.func(GEN_MOD, qual)
        # the classification loop may live in a private helper of the class that the function calls
        loops = [n for n in pyfront.walk_with_helpers(px, g) if isinstance(n, ast.For) and
                 any(isinstance(x, ast.Attribute) and x.attr == "_post_processors" for x in ast.walk(n.iter))]
        ok = len(loops) == 1
        if ok:
            lp = loops[0]
            ifs = [s for s in lp.body if isinstance(s, ast.If)]
            ok = len(ifs) == 1 and "FilePostProcessor" in ast.unparse(ifs[0].test if not ifs[0].orelse else ifs[0]) and \
                sum(1 for c in ast.walk(ifs[0]) if isinstance(c, ast.Call) and isinstance(c.func, ast.Attribute) and c.func.attr == "append") >= 2 \
                and any(isinstance(x, ast.Raise) for x in ast.walk(ifs[0]))
        ctx.ob(R, g.module.rel, f"{g.short} :: every configured post-processor is classified (unknown kinds raise)", ok,
               "" if ok else "post-processor partition changed", g.node.lineno)


def rule_setfilemode(ctx, px):
    R = "R-C12-SETMODE"
    ctx.rule(R, "SetFileMode.__call__ applies exactly the requested mode to exactly the generated path and returns it")
    c = px.cls("nunavut._postprocessors", "SetFileMode")
    f = c.methods.get("__call__")
    if f is None:
        raise AnalysisError("anchor missing: SetFileMode.__call__")
    effs = effects.fs_effects(f.module, f.node)
    param = f.node.args.args[1].arg
    ok = len(effs) == 1 and effs[0][1] == "chmod"
    ctx.ob(R, f.module.rel, f"{f.short} :: exactly one chmod", ok, "" if ok else f"effects: {[e[2] for e in effs]}", f.node.lineno)
    if ok:
        call = effs[0][0]
        recv = ast.unparse(call.func.value) if isinstance(call.func, ast.Attribute) else ""
        arg = ast.unparse(call.args[0]) if call.args else ""
        g = pyfront.guards_of(f.node, call)
        ctx.ob(R, f.module.rel, f"{f.short} :: chmod on the generated path", recv == param, "" if recv == param else recv, call.lineno)
        ctx.ob(R, f.module.rel, f"{f.short} :: chmod(self._file_mode)", arg == "self._file_mode", "" if arg == "self._file_mode" else arg, call.lineno)
        ctx.ob(R, f.module.rel, f"{f.short} :: chmod unconditional", not g, "" if not g else str(pyfront.guard_terms(g)), call.lineno)
    init = c.methods.get("__init__")
    asg = [n for n in ast.walk(init.node) if isinstance(n, ast.Assign) and ast.unparse(n.targets[0]) == "self._file_mode"]
    ok = len(asg) == 1 and ast.unparse(asg[0].value) == init.node.args.args[1].arg
    ctx.ob(R, f.module.rel, f"{c.name}.__init__ :: stores the requested mode unmodified", ok, "", init.node.lineno)
    rets = [r for r in ast.walk(f.node) if isinstance(r, ast.Return)]
    ok = bool(rets) and all(r.value is not None and ast.unparse(r.value) == param for r in rets)
    ctx.ob(R, f.module.rel, f"{f.short} :: returns the path it was given", ok, "", f.node.lineno)


def rule_report(ctx, px):
    R = "R-C12-GATE-SHAPE"
    # (clause of the gate rule: the refusal must reach the caller as an error)
    OSERR = {"OSError", "PermissionError", "IOError", "EnvironmentError", "Exception", "BaseException", "FileExistsError"}
    n = 0
    for modname, qual in (("nunavut.cli", "main"), ("nunavut.cli.runners", "ArgparseRunner.run"), ("nunavut.cli.runners", "ArgparseRunner._generate"),
                          ("nunavut.jinja", "DSDLCodeGenerator.generate_all"), ("nunavut.jinja", "SupportGenerator.generate_all"),
                          ("nunavut.jinja", "DSDLCodeGenerator._generate_type"), ("nunavut.jinja", "CodeGenerator._generate_code")):
        try:
            f = px.func(modname, qual)
        except AnalysisError:
            continue
        for tr in [x for x in ast.walk(f.node) if isinstance(x, ast.Try)]:
            # does the protected block run the generator?
            body_calls = {c.func.attr if isinstance(c.func, ast.Attribute) else getattr(c.func, "id", "") for st in tr.body for c in ast.walk(st) if isinstance(c, ast.Call)}
            if not body_calls & {"run", "_generate", "generate_all", "_generate_type", "_generate_code", "_handle_overwrite", "ArgparseRunner"}:
                continue
            for h in tr.handlers:
                names = {"BaseException"} if h.type is None else {ast.unparse(e).split(".")[-1] for e in (h.type.elts if isinstance(h.type, ast.Tuple) else [h.type])}
                if not names & OSERR:
                    continue
                n += 1
                bad = []
                for path in pyfront.enumerate_paths(h.body):
                    last = path.stmts[-1] if path.stmts else None
                    if path.outcome == "raise":
                        continue
                    if path.outcome == "return" and isinstance(last, ast.Return) and isinstance(last.value, ast.Constant) and isinstance(last.value.value, int) \
                            and not isinstance(last.value.value, bool) and last.value.value != 0:
                        continue
                    if isinstance(last, ast.Expr) and isinstance(last.value, ast.Call) and ast.unparse(last.value.func) in ("sys.exit", "exit") and last.value.args \
                            and isinstance(last.value.args[0], ast.Constant) and last.value.args[0].value not in (0, None):
                        continue
                    bad.append(ast.unparse(last)[:60] if last is not None else "<falls through>")
                ok = not bad
                ctx.ob(R, f.module.rel, f"{f.short} :: `except {'/'.join(sorted(names))}` around the run re-raises or ends with a non-zero status on every path", ok,
                       "" if ok else f"handler paths ending in {bad}: the PermissionError of a --no-overwrite conflict (built from a message, errno None) is turned into "
                       "exit status 0 / swallowed - the conflict is not reported as an error", h.lineno)
    ctx.ob(R, "src/nunavut/cli/__init__.py", "the overwrite refusal reaches the caller of main() as an error (handlers inspected on the way up)", True, f"{n} handler(s) on the path")


FS_PROBES = {"exists", "is_file", "is_dir", "stat", "lstat", "is_symlink", "samefile", "iterdir", "glob", "rglob", "access", "getmtime", "getsize", "isfile", "isdir", "listdir",
             "scandir", "walk"}


def rule_history_free(ctx, px):
    R = "R-C12-GATE"
    # what a run writes is decided by its arguments, not by what earlier runs left in the output directory: nothing on the way from the
    # command line to the generators' generate_all() inspects the file system.  (Only the overwrite gate looks at an existing output, and
    # only to refuse or to make it writable.)  A shortcut such as "skip the support files when they are already there and read-only"
    # keeps stale content and mode of an earlier run made with other options.
    gen = px.func(RUN_MOD, "ArgparseRunner._generate")
    cls = gen.cls

    def probes_in(fn, seen):
        out = []
        if fn.qual in seen:
            return out
        seen.add(fn.qual)
        for c in ast.walk(fn.node):
            if isinstance(c, ast.Call) and isinstance(c.func, ast.Attribute):
                if c.func.attr in FS_PROBES:
                    out.append(f"{fn.short}:{c.lineno} .{c.func.attr}()")
                if isinstance(c.func.value, ast.Name) and c.func.value.id == "self" and cls is not None and c.func.attr in cls.methods and c.func.attr.startswith("_"):
                    out += probes_in(cls.methods[c.func.attr], seen)
        return out

    n = 0
    for st, g in pyfront.walk_guarded(gen.node.body):
        for c in pyfront.expr_calls(st):
            if not (isinstance(c.func, ast.Attribute) and c.func.attr == "generate_all"):
                continue
            n += 1
            bad = []
            for t_, _p in g:
                t_n = pyfront.subst_locals(gen.node, t_)
                # locals that are assigned more than once are followed through every assignment
                names = {x.id for x in ast.walk(t_n) if isinstance(x, ast.Name)}
                exprs = [t_n] + [a.value for a in ast.walk(gen.node) if isinstance(a, ast.Assign) and any(isinstance(tg, ast.Name) and tg.id in names for tg in a.targets)]
                for e in exprs:
                    for cc in ast.walk(e):
                        if isinstance(cc, ast.Call) and isinstance(cc.func, ast.Attribute):
                            if cc.func.attr in FS_PROBES:
                                bad.append(f".{cc.func.attr}()")
                            if isinstance(cc.func.value, ast.Name) and cc.func.value.id == "self" and cls is not None and cc.func.attr in cls.methods:
                                bad += probes_in(cls.methods[cc.func.attr], set())
            ctx.ob(R, gen.module.rel, f"{gen.short} :: {ast.unparse(c.func)}(...) is decided by the arguments of the run, not by the state of the output directory", not bad,
                   "" if not bad else f"the call is conditioned on {sorted(set(bad))}: files left by an earlier run (made with other options or another --file-mode) decide "
                   "whether this run rewrites them, so the result differs from a run into an empty directory", c.lineno)
    ctx.floor(R + ":history-free", n, 2)


def run(ctx):
    ctx.explanation = (
        "C12 is decided by must-pass-through rules on the generator classes: every create/truncate/copy of an output "
        "file is dominated by the overwrite gate for that very path with allow_overwrite forwarded unmodified from "
        "generate_all; the gate only adds write bits when allowed and raises otherwise; SetFileMode is appended "
        "unconditionally and last and file post-processors run after the file is closed.  Content equality with a "
        "run into an empty directory is not observed."
    )
    ctx.declined = ["content equality with a run into an empty directory (relation between two runs)",
                    "behaviour of user-supplied external post-processor programs"]
    px = pyfront.PyIndex(ctx.root)
    ctx.unit("python_modules", len(px.modules))
    rule_gate(ctx, px)
    rule_history_free(ctx, px)
    rule_truncate(ctx, px)
    rule_gate_shape(ctx, px)
    rule_report(ctx, px)
    rule_mode(ctx, px)
    rule_setfilemode(ctx, px)
