"""
C10 - per-type output ignores sibling types, processing order and earlier runs.
Static: inventory of state that outlives one generated file and is written inside the per-file call graph; each item
must be reset unconditionally at the per-file entry, be a memo keyed by all its inputs, or never reach text.
"""
import ast

from checks import _gen
from nvsa import effects, j2front, pyfront, reach
from nvsa.j2front import xs
from nvsa.report import AnalysisError

GEN_MOD = "nunavut.jinja"
MUTATORS = {"append", "add", "update", "extend", "insert", "pop", "popitem", "remove", "discard", "clear",
            "setdefault", "appendleft", "sort", "reverse", "__setitem__"}
CACHE_DECOS = ("functools.lru_cache", "lru_cache", "functools.cache", "cached_property", "functools.cached_property")


def per_file_entries(px):
    """Entry points of the per-file call graph: the per-type generator methods, every template-callable function
    (filter_*/is_*/uses_* naming convention, in language modules, Language classes and DSDLCodeGenerator), and the
    __call__ of every post-processor class."""
    ents = []
    for q in ("DSDLCodeGenerator._generate_type", "SupportGenerator._generate_header", "SupportGenerator._copy_header"):
        ents.append(px.func(GEN_MOD, q))
    for f in px.all_funcs:
        if f.outer is not None:
            continue
        if f.name.startswith(("filter_", "is_", "uses_")) and (f.module.name.startswith("nunavut.lang") or f.module.name == GEN_MOD):
            ents.append(f)
    pp = px.module("nunavut._postprocessors")
    for c in pp.classes.values():
        if "__call__" in c.methods:
            ents.append(c.methods["__call__"])
    return ents


def _fresh_object_method(f):
    """writes in __init__ / __new__ / __set_name__ initialise a fresh object"""
    return f.name in ("__init__", "__new__", "__set_name__", "__post_init__")


def state_writes(px, region_funcs):
    """(func, node, owner-kind, name, how) for writes to self./cls./Class./module-level state in region functions."""
    out = []
    for f in region_funcs:
        if _fresh_object_method(f):
            continue
        top = f
        while top.outer is not None:
            top = top.outer
        cls = top.cls
        mod_level_names = set()
        for st in f.module.tree.body:
            if isinstance(st, ast.Assign):
                for t in st.targets:
                    if isinstance(t, ast.Name):
                        mod_level_names.add(t.id)
            elif isinstance(st, ast.AnnAssign) and isinstance(st.target, ast.Name):
                mod_level_names.add(st.target.id)
        class_names = set(f.module.classes) | {k for k, v in f.module.imports.items() if v.split(".")[-1][:1].isupper()}
        local_names = {a.arg for a in f.node.args.args + f.node.args.kwonlyargs}
        for n in ast.walk(f.node):
            if isinstance(n, ast.Assign):
                for t in n.targets:
                    for tt in (t.elts if isinstance(t, ast.Tuple) else [t]):
                        if isinstance(tt, ast.Name):
                            local_names.add(tt.id)
        globals_declared = set()
        for n in ast.walk(f.node):
            if isinstance(n, ast.Global):
                globals_declared.update(n.names)

        def owner_of(expr):
            """('self'|'cls'|'class'|'module'|'global', name) for the root of an attribute/subscript chain."""
            base = expr
            chain = []
            while isinstance(base, (ast.Attribute, ast.Subscript)):
                if isinstance(base, ast.Attribute):
                    chain.append(base.attr)
                base = base.value
            if not isinstance(base, ast.Name):
                return None
            chain.reverse()
            if base.id == "self" and chain:
                return ("self", chain[0])
            if base.id == "cls" and chain:
                return ("cls", chain[0])
            if base.id in class_names and chain and base.id not in local_names:
                return ("class:" + base.id, chain[0])
            if base.id in globals_declared:
                return ("global", base.id)
            if base.id in mod_level_names and base.id not in local_names:
                return ("module", base.id)
            return None

        # locals that alias state: `v = self.attr` (plain attribute or a cached property, never an ordinary @property or a
        # call, whose value is new each time): a mutation through v is a mutation of the attribute's object
        aliases = {}
        for n in ast.walk(f.node):
            if isinstance(n, ast.Assign) and len(n.targets) == 1 and isinstance(n.targets[0], ast.Name) and isinstance(n.value, (ast.Attribute, ast.Subscript)):
                o = owner_of(n.value)
                if o and o[0] in ("self", "cls") and cls is not None:
                    meth = cls.mro_lookup(o[1])
                    if meth is not None and not any(d.split("(")[0].split(".")[-1] in ("cached_property", "lru_cache", "cache") for d in meth.decorators):
                        continue  # an ordinary method / property: evaluated per use
                    if isinstance(n.value, ast.Attribute) and n.value.attr != o[1] and not isinstance(n.value.value, ast.Subscript):
                        continue  # self.a.b: an attribute of another object, judged where that object's class is analysed
                    aliases.setdefault(n.targets[0].id, o)
        for n in ast.walk(f.node):
            if isinstance(n, ast.Call) and isinstance(n.func, ast.Attribute) and n.func.attr in MUTATORS and isinstance(n.func.value, ast.Name) \
                    and n.func.value.id in aliases:
                o = aliases[n.func.value.id]
                out.append((f, n, o[0], o[1], n.func.attr + "() through a local alias"))
            if isinstance(n, (ast.Assign, ast.AugAssign)):
                for t in (n.targets if isinstance(n, ast.Assign) else [n.target]):
                    if isinstance(t, ast.Subscript) and isinstance(t.value, ast.Name) and t.value.id in aliases:
                        o = aliases[t.value.id]
                        out.append((f, n, o[0], o[1], "item assignment through a local alias"))
        for n in ast.walk(f.node):
            tgts = []
            if isinstance(n, ast.Assign):
                tgts = n.targets
            elif isinstance(n, (ast.AugAssign, ast.AnnAssign)):
                tgts = [n.target]
            elif isinstance(n, ast.Delete):
                tgts = n.targets
            for t in tgts:
                for tt in (t.elts if isinstance(t, (ast.Tuple, ast.List)) else [t]):
                    if isinstance(tt, (ast.Attribute, ast.Subscript)):
                        o = owner_of(tt)
                        if o:
                            out.append((f, n, o[0], o[1], "assign"))
                    elif isinstance(tt, ast.Name) and tt.id in globals_declared:
                        out.append((f, n, "global", tt.id, "assign"))
            if isinstance(n, ast.Call) and isinstance(n.func, ast.Attribute) and n.func.attr in MUTATORS:
                o = owner_of(n.func.value)
                if o:
                    out.append((f, n, o[0], o[1], n.func.attr + "()"))
            if isinstance(n, ast.Call) and effects.dotted(n.func) == "setattr" and n.args:
                a0 = n.args[0]
                if isinstance(a0, ast.Name) and a0.id in ("self", "cls"):
                    nm = ast.unparse(n.args[1]) if len(n.args) > 1 else "?"
                    out.append((f, n, a0.id, f"<setattr {nm}>", "setattr"))
    return out


# ---- classification -------------------------------------------------------------------------------------------
def _chk_unique_name_reset(ctx, px, items):
    """(a) UniqueNameGenerator: reset() is an unconditional top-level statement of _generate_code that precedes the
    consumption of the template generator."""
    g = px.func(GEN_MOD, "CodeGenerator._generate_code")
    reset_stmt = None
    for st in g.node.body:
        if isinstance(st, ast.Expr) and isinstance(st.value, ast.Call) and ast.unparse(st.value.func) == "UniqueNameGenerator.reset":
            reset_stmt = st
    if reset_stmt is None:
        return False, "UniqueNameGenerator.reset() is not an unconditional top-level statement of _generate_code"
    # everything that consumes template_gen comes later
    gen_param = g.node.args.args[3].arg if len(g.node.args.args) > 3 else "template_gen"
    consumers = [n for n in ast.walk(g.node) if isinstance(n, ast.Name) and n.id == gen_param and isinstance(n.ctx, ast.Load)]
    if not consumers:
        return False, "template_gen is no longer consumed in _generate_code"
    if any(c.lineno <= reset_stmt.lineno for c in consumers):
        return False, "template output is consumed before the reset"
    # reset really replaces the singleton
    r = px.func("nunavut.lang._common", "UniqueNameGenerator.reset")
    ok = any(isinstance(n, ast.Assign) and ast.unparse(n.targets[0]) == "cls._singleton" and ast.unparse(n.value) == "cls()"
             for n in ast.walk(r.node))
    if not ok:
        return False, "reset() no longer installs a fresh instance"
    # a fresh instance has fresh counters: every container the generator's __call__ reads through `self` is created in __init__,
    # not once in the class body (a class-level dict is shared by all instances and survives the reset)
    cls = px.cls("nunavut.lang._common", "UniqueNameGenerator")
    call = cls.methods.get("__call__")
    init = cls.methods.get("__init__")
    if call is None:
        return False, "UniqueNameGenerator.__call__ vanished"
    read = {n.attr for n in ast.walk(call.node) if isinstance(n, ast.Attribute) and isinstance(n.value, ast.Name) and n.value.id == "self" and n.attr not in cls.methods}
    made = set()
    if init is not None:
        for n in ast.walk(init.node):
            tg = n.targets if isinstance(n, ast.Assign) else ([n.target] if isinstance(n, ast.AnnAssign) and n.value is not None else [])
            for t_ in tg:
                if isinstance(t_, ast.Attribute) and isinstance(t_.value, ast.Name) and t_.value.id == "self":
                    made.add(t_.attr)
    class_level = set()
    for st in cls.node.body:
        tg = st.targets if isinstance(st, ast.Assign) else ([st.target] if isinstance(st, ast.AnnAssign) and st.value is not None else [])
        for t_ in tg:
            if isinstance(t_, ast.Name) and isinstance(st.value, (ast.Dict, ast.List, ast.Set, ast.Call, ast.DictComp, ast.ListComp)):
                class_level.add(t_.id)
    shared = sorted((read - made) | (read & class_level - made))
    if shared:
        return False, (f"counters {shared} are not created per instance (class-level container / never assigned in __init__): reset() installs a new instance but the "
                       "numbering continues from the previous file, so a file's temporaries depend on what was generated before it")
    # and _generate_code is the only route to rendering: both per-file entries call it
    return True, "reset() installs a fresh instance (with its own counters) unconditionally before any template output is consumed"


def _chk_now_utc(ctx, px, items):
    g = px.func(GEN_MOD, "CodeGenerator._generate_code")
    st0 = [st for st in g.node.body if isinstance(st, ast.Assign) and ast.unparse(st.targets[0]) == "self._env.now_utc"]
    if not st0:
        return False, "now_utc is not rewritten unconditionally at the start of each file"
    return True, "rewritten unconditionally per file; read by templates only under the auditing guard (C07)"


def _chk_template_cache(ctx, px, items):
    # value depends on key and on the loader's template listing only (the rule is shared with C16)
    from checks import C16
    return C16.cache_discipline(px)


def _chk_limit_empty_lines(ctx, px, items):
    """(a) the running empty-line count must be re-initialised at the start of every file."""
    # accepted shape: the per-file entry (_generate_code / _copy_header_using_line_pps) resets each line processor
    # before the first line, unconditionally - via a reset hook or by constructing fresh processors per file.
    pp = px.cls("nunavut._postprocessors", "LimitEmptyLines")
    reset = [m for m in pp.methods.values() if m.name not in ("__init__", "__call__") and any(
        isinstance(n, ast.Assign) and ast.unparse(n.targets[0]) == "self._empty_line_count" for n in ast.walk(m.node))]
    if not reset:
        return False, ("LimitEmptyLines._empty_line_count is carried from the end of one generated file into the next: "
                       "no per-file reset exists")
    rname = reset[0].name
    problems = []
    for q in ("CodeGenerator._generate_code", "SupportGenerator._copy_header_using_line_pps"):
        g = _gen.render_view(px.func(GEN_MOD, q))
        calls = []
        lists = {ast.unparse(c.args[-1]) for c in ast.walk(g.node) if isinstance(c, ast.Call) and isinstance(c.func, ast.Attribute)
                 and c.func.attr in ("_generate_with_line_buffer", "_filter_and_write_line") and c.args}
        # ... or the collection whose elements are applied to a line tuple in this function
        lists |= {ast.unparse(lp.iter) for lp in ast.walk(g.node) if isinstance(lp, ast.For) and isinstance(lp.target, ast.Name)
                  and any(isinstance(c, ast.Call) and isinstance(c.func, ast.Name) and c.func.id == lp.target.id for c in ast.walk(lp))}
        for lp in ast.walk(g.node):
            if isinstance(lp, ast.For) and ast.unparse(lp.iter) in lists and isinstance(lp.target, ast.Name):
                for c in ast.walk(lp):
                    if isinstance(c, ast.Call) and isinstance(c.func, ast.Attribute) and c.func.attr == rname \
                            and isinstance(c.func.value, ast.Name) and c.func.value.id == lp.target.id:
                        if any(isinstance(x, (ast.Break, ast.Continue, ast.If)) for x in ast.walk(lp)):
                            problems.append(f"{q}: the reset loop skips processors")
                        calls.append(c)
        if not calls:
            problems.append(f"{q} never calls {rname}() on every line processor")
            continue
        c = calls[0]
        gd = pyfront.guards_of(g.node, c)
        if gd:
            problems.append(f"{q}: {rname}() only under {pyfront.guard_terms(gd)}")
        # before any write
        writes = [n for n in ast.walk(g.node) if isinstance(n, ast.Call) and isinstance(n.func, ast.Attribute)
                  and n.func.attr in ("write", "_generate_with_line_buffer", "_filter_and_write_line")]
        if any(w.lineno < c.lineno for w in writes):
            problems.append(f"{q}: lines are written before {rname}()")
    # the reset is dispatched on the object: every line processor class of the package must answer it for all the state its __call__
    # depends on - its own attributes, and the processors it holds and applies (a composite that inherits the no-op reset of the base
    # class shields its members from the per-file reset)
    ppm = px.module("nunavut._postprocessors")
    base = ppm.classes.get("LinePostProcessor")
    for k in (base.all_subs() if base is not None else []):
        call = k.methods.get("__call__")
        if call is None:
            continue
        written = {n_.targets[0].attr if isinstance(n_, ast.Assign) else n_.target.attr for n_ in ast.walk(call.node)
                   if (isinstance(n_, ast.Assign) and isinstance(n_.targets[0], ast.Attribute) and ast.unparse(n_.targets[0].value) == "self")
                   or (isinstance(n_, ast.AugAssign) and isinstance(n_.target, ast.Attribute) and ast.unparse(n_.target.value) == "self")}
        held = set()
        for lp in ast.walk(call.node):
            if isinstance(lp, ast.For) and isinstance(lp.target, ast.Name) and isinstance(lp.iter, ast.Attribute) and ast.unparse(lp.iter.value) == "self" \
                    and any(isinstance(c_, ast.Call) and isinstance(c_.func, ast.Name) and c_.func.id == lp.target.id for c_ in ast.walk(lp)):
                held.add(lp.iter.attr)
        for c_ in ast.walk(call.node):
            if isinstance(c_, ast.Call) and isinstance(c_.func, ast.Attribute) and ast.unparse(c_.func.value) == "self" and c_.func.attr not in k.methods \
                    and k.mro_lookup(c_.func.attr) is None:
                held.add(c_.func.attr)      # self.inner(line): an attribute that is applied like a processor
        if not written and not held:
            continue
        r_ = k.mro_lookup(rname)
        if r_ is None:
            problems.append(f"{k.name} has no {rname}()")
            continue
        reinit = {n_.targets[0].attr for n_ in ast.walk(r_.node) if isinstance(n_, ast.Assign) and isinstance(n_.targets[0], ast.Attribute)
                  and ast.unparse(n_.targets[0].value) == "self"}
        forwarded = set()
        for lp in ast.walk(r_.node):
            if isinstance(lp, ast.For) and isinstance(lp.target, ast.Name) and isinstance(lp.iter, ast.Attribute) and ast.unparse(lp.iter.value) == "self" \
                    and any(isinstance(c_, ast.Call) and isinstance(c_.func, ast.Attribute) and c_.func.attr == rname and ast.unparse(c_.func.value) == lp.target.id
                            for c_ in ast.walk(lp)) and not any(isinstance(x, (ast.If, ast.Break, ast.Continue)) for x in ast.walk(lp)):
                forwarded.add(lp.iter.attr)
        for c_ in ast.walk(r_.node):
            if isinstance(c_, ast.Call) and isinstance(c_.func, ast.Attribute) and c_.func.attr == rname and isinstance(c_.func.value, ast.Attribute) \
                    and ast.unparse(c_.func.value.value) == "self":
                forwarded.add(c_.func.value.attr)
        miss = sorted((written - reinit) | {f"{h} (held processors)" for h in held - forwarded})
        if miss:
            problems.append(f"{k.name}.{rname}() (defined in {r_.cls.name if r_.cls else '?'}) does not cover {miss}: the per-file reset reaches this object but not "
                            "that state, which is carried from the end of one generated file into the next")
    if problems:
        return False, "; ".join(problems)
    return True, f"every line processor is {rname}() at the start of each file, before the first line"


def _chk_lazy_config(ctx, px, items):
    return True, "lazy initialisation of a value that is a function of constructor arguments only (set once, never changed)"


CLASSIFIED = {
    # key: (class or module short, attribute) -> (category, checker)
    ("UniqueNameGenerator", "_singleton"): ("reset-per-file", _chk_unique_name_reset),
    ("UniqueNameGenerator", "_index_map"): ("reset-per-file", _chk_unique_name_reset),
    ("CodeGenEnvironment", "globals"): ("reset-per-file", _chk_now_utc),
    ("CodeGenerator", "_env"): ("reset-per-file", _chk_now_utc),
    ("DSDLTemplateLoader", "_type_to_template_lookup_cache"): ("pure-memo", _chk_template_cache),
    ("LimitEmptyLines", "_empty_line_count"): ("reset-per-file", _chk_limit_empty_lines),
}


def _diagnostic_only(px, attr: str) -> bool:
    """clause (c), decided generically: the attribute is read nowhere in the package except inside its own augmented
    assignment or as an argument of a logging / logger call (statistics, progress messages)"""
    reads = 0
    for f in px.all_funcs:
        pm = None
        for x in ast.walk(f.node):
            via_getattr = isinstance(x, ast.Call) and isinstance(x.func, ast.Name) and x.func.id in ("getattr", "hasattr") and len(x.args) >= 2 \
                and isinstance(x.args[1], ast.Constant) and x.args[1].value == attr
            if via_getattr or (((isinstance(x, ast.Attribute) and x.attr == attr) or (isinstance(x, ast.Name) and x.id == attr)) and isinstance(x.ctx, ast.Load)):
                pm = pm or pyfront.parent_map(f.node)
                st = pyfront.enclosing_stmt(x, pm)
                reads += 1
                if isinstance(st, ast.AugAssign) and attr in {getattr(t, "attr", None) or getattr(t, "id", None) for t in ast.walk(st.target)}:
                    continue
                if isinstance(st, ast.Assign) and len(st.targets) == 1 and isinstance(st.targets[0], ast.Attribute) and st.targets[0].attr == attr:
                    continue   # x = x + 1 form
                if isinstance(st, ast.Expr) and isinstance(st.value, ast.Call) and (ast.unparse(st.value.func).split(".")[0] in ("logging", "logger", "_logger", "log")):
                    continue
                return False
    return True


def rule_state(ctx, px, R="R-C10-STATE", why=""):
    ctx.rule(
        R,
        why + "every piece of state that outlives one generated file and is written inside the per-file call graph is "
        "(a) re-initialised unconditionally at the per-file entry, (b) a memo whose value is a function of its key, or "
        "(c) never read on a path to emitted text; anything else is a violation naming the attribute and write site",
    )
    ents = per_file_entries(px)
    region = {}
    for f, st, g, chain in reach.region_walk(px, ents, lambda f, g: False):
        region[f.qual] = f
    ctx.unit("per_file_entry_points", len(ents))
    ctx.unit("per_file_region_functions", len(region))
    writes = state_writes(px, list(region.values()))
    # group by (owner class, attr)
    groups = {}
    for f, node, okind, name, how in writes:
        top = f
        while top.outer is not None:
            top = top.outer
        if okind in ("self", "cls"):
            owner = top.cls.name if top.cls is not None else f.module.name
        elif okind.startswith("class:"):
            owner = okind.split(":", 1)[1]
        else:
            owner = f.module.name
        groups.setdefault((owner, name), []).append((f, node, how))
    n = 0
    for (owner, name), sites in sorted(groups.items()):
        n += 1
        f, node, how = sites[0]
        where = ", ".join(sorted({s[0].short for s in sites}))
        construct = f"{owner}.{name} written in {where}"
        cl = CLASSIFIED.get((owner, name))
        if cl is None and _diagnostic_only(px, name):
            ctx.ob(R, f.module.rel, construct, True, "[never read on a path to emitted text] every read of this attribute is its own update or an "
                   "argument of a logging call", node.lineno)
            continue
        if cl is None:
            ctx.ob(R, f.module.rel, construct, False,
                   f"unclassified state written inside the per-file call graph ({how}); it outlives the file being generated",
                   node.lineno)
            continue
        cat, chk = cl
        ok, why = chk(ctx, px, sites)
        ctx.ob(R, f.module.rel, construct, ok, f"[{cat}] {why}", node.lineno)
    if ("UniqueNameGenerator", "_index_map") not in groups:
        # the counters are written through an alias (keymap = self._index_map[key]; keymap[token] = ...): still per-file state
        ok, why = _chk_unique_name_reset(ctx, px, [])
        u = px.func("nunavut.lang._common", "UniqueNameGenerator.__call__")
        ctx.ob(R, u.module.rel, "UniqueNameGenerator counters written in UniqueNameGenerator.__call__", ok, f"[reset-per-file] {why}", u.node.lineno)
        n += 1
    ctx.floor(R, n, 4)


def counter_filters(px):
    """names (as templates spell them) of the filters / tests whose implementation reaches the per-file name counters"""
    out = set()
    for f in px.all_funcs:
        if f.outer is not None or f.cls is not None or not (f.name.startswith("filter_") or f.name.startswith("is_") or f.name.startswith("uses_")):
            continue
        if not f.module.name.startswith("nunavut.lang."):
            continue
        seen, work, touches = set(), [f], False
        while work and not touches:
            g = work.pop()
            if g.qual in seen:
                continue
            seen.add(g.qual)
            for c in ast.walk(g.node):
                if isinstance(c, ast.Attribute) and isinstance(c.value, ast.Name) and c.value.id == "UniqueNameGenerator":
                    touches = True
                if isinstance(c, ast.Call):
                    work.extend(x for x in px.resolve_call(g, c, by_name_fallback=False) if x.module.name.startswith("nunavut.lang"))
        if touches:
            out.add(f.name.split("_", 1)[1])
    return out


def rule_render_time(ctx, px):
    R = "R-C10-RENDER-TIME"
    ctx.rule(
        R,
        "a template filter that reads or advances the per-file name counters (UniqueNameGenerator) is evaluated at render time, "
        "after the per-file reset: it carries a decorator setting an attribute for which the bundled Jinja's Filter.as_const "
        "refuses constant folding; a foldable filter with a constant argument is evaluated when the template is compiled, against "
        "whatever counter state earlier files or earlier runs of the process left behind",
    )
    # (1) attributes that stop constant folding, read from the bundled jinja2: `if ... getattr(filter_, '<attr>', False): raise Impossible()`
    nodes_py = ctx.root / "src" / "nunavut" / "jinja" / "jinja2" / "nodes.py"
    tree = ast.parse(nodes_py.read_text(encoding="utf-8"))
    nonfold = set()
    for cls in [n for n in tree.body if isinstance(n, ast.ClassDef) and n.name == "Filter"]:
        for fn in [n for n in cls.body if isinstance(n, ast.FunctionDef) and n.name == "as_const"]:
            call_line = min([c.lineno for c in ast.walk(fn) if isinstance(c, ast.Call) and isinstance(c.func, ast.Name) and c.func.id == "filter_"] or [10 ** 9])
            for st in ast.walk(fn):
                if isinstance(st, ast.If) and st.lineno < call_line and any(isinstance(x, ast.Raise) and "Impossible" in ast.unparse(x) for x in st.body):
                    for c in ast.walk(st.test):
                        if isinstance(c, ast.Call) and isinstance(c.func, ast.Name) and c.func.id == "getattr" and len(c.args) >= 2 \
                                and isinstance(c.args[0], ast.Name) and c.args[0].id == "filter_" and isinstance(c.args[1], ast.Constant):
                            nonfold.add(c.args[1].value)
    if not nonfold:
        raise AnalysisError("anchor missing: the attribute test that makes jinja2.nodes.Filter.as_const refuse folding")
    # (2) nunavut decorators -> attribute they set
    tm = px.module("nunavut._templates")
    consts = {t.id: n.value.value for n in tm.tree.body if isinstance(n, ast.Assign) and isinstance(n.value, ast.Constant) and isinstance(n.value.value, str)
              for t in n.targets if isinstance(t, ast.Name)}
    deco_attr = {}
    for fn in [n for n in tm.tree.body if isinstance(n, ast.FunctionDef)]:
        for c in ast.walk(fn):
            if isinstance(c, ast.Call) and isinstance(c.func, ast.Name) and c.func.id == "setattr" and len(c.args) == 3 and ast.unparse(c.args[2]) == "True":
                a = c.args[1]
                v = a.value if isinstance(a, ast.Constant) else consts.get(a.id if isinstance(a, ast.Name) else "")
                if v:
                    deco_attr.setdefault(fn.name, set()).add(v)
    render_time = sorted(d for d, attrs in deco_attr.items() if attrs & nonfold)
    ctx.unit("nonfoldable_filter_attributes", sorted(nonfold))
    ctx.unit("render_time_decorators", render_time)
    if not render_time:
        raise AnalysisError("anchor missing: no nunavut decorator sets a non-foldable filter attribute")
    # (3) template filters/tests that reach the counters
    n = 0
    foldable = set()
    for f in px.all_funcs:
        if f.outer is not None or f.cls is not None or not (f.name.startswith("filter_") or f.name.startswith("is_") or f.name.startswith("uses_")):
            continue
        if not f.module.name.startswith("nunavut.lang."):
            continue
        touches = False
        seen, work = set(), [f]
        while work and not touches:
            g = work.pop()
            if g.qual in seen:
                continue
            seen.add(g.qual)
            for c in ast.walk(g.node):
                if isinstance(c, ast.Attribute) and isinstance(c.value, ast.Name) and c.value.id == "UniqueNameGenerator":
                    touches = True
                if isinstance(c, ast.Call):
                    work.extend(x for x in px.resolve_call(g, c, by_name_fallback=False) if x.module.name.startswith("nunavut.lang"))
        if not touches:
            continue
        n += 1
        decos = [d.split("(")[0].split(".")[-1] for d in f.decorators]
        ok = any(d in render_time for d in decos)
        if not ok:
            foldable.add(f"{f.module.name.split('.')[-1]}.{f.name}")
        ctx.ob(R, f.module.rel, f"{f.short} :: evaluated at render time (decorators {decos or 'none'})", ok,
               "" if ok else f"none of {render_time}: `'x' | {f.name[len('filter_'):]}` is folded when the template is compiled, before the per-file reset; the name depends "
               "on what was generated earlier in the process", f.node.lineno)
    ctx.floor(R, n, 4)
    _compile_order(ctx, px, R, foldable)


COMPILE_APIS = {"get_template", "select_template", "get_or_select_template", "from_string", "compile_templates"}


def _compile_order(ctx, px, R, foldable):
    """(4) where templates are compiled.  Constant folding happens when a template is *compiled*.  A template that a
    rendered template imports / includes / extends is compiled by the rendering itself, i.e. after the per-file reset;
    the only compilation that may precede the reset is the look-up of the one template the file is rendered from.  Any
    other compile site (a warm-up loop, a pre-load of the whole template set) compiles the imported codec templates
    against the counters the previous file / the previous run of the process left behind - harmless only while no
    counter filter is foldable."""
    n = 0
    render_entry = {}
    for f in px.all_funcs:
        if f.outer is not None or not f.module.name.startswith("nunavut"):
            continue
        for c in ast.walk(f.node):
            if isinstance(c, ast.Call) and isinstance(c.func, ast.Attribute) and c.func.attr == "_generate_code":
                render_entry[f.qual] = f
    # callers by simple name inside the package
    callers = {}
    for g in px.all_funcs:
        if g.outer is not None:
            continue
        loops = [lp for lp in ast.walk(g.node) if isinstance(lp, (ast.For, ast.While, ast.ListComp, ast.GeneratorExp, ast.SetComp, ast.DictComp))]
        for c in ast.walk(g.node):
            if isinstance(c, ast.Call) and isinstance(c.func, ast.Attribute) and isinstance(c.func.value, ast.Name) and c.func.value.id in ("self", "cls"):
                in_loop = any(c in set(ast.walk(lp)) for lp in loops)
                callers.setdefault(c.func.attr, []).append((g, in_loop))

    def per_file(f, in_loop, depth=0):
        """f compiles on behalf of exactly one file that is about to be rendered"""
        if in_loop:
            return False
        if f.qual in render_entry:
            return True
        if depth >= 3 or not f.name.startswith("_"):
            return False
        cs = callers.get(f.name, [])
        return bool(cs) and all(per_file(g, lp, depth + 1) for g, lp in cs)

    for f in px.all_funcs:
        if f.outer is not None or not f.module.name.startswith("nunavut"):
            continue
        loops = [lp for lp in ast.walk(f.node) if isinstance(lp, (ast.For, ast.While, ast.ListComp, ast.GeneratorExp, ast.SetComp, ast.DictComp))]
        for c in ast.walk(f.node):
            if not (isinstance(c, ast.Call) and isinstance(c.func, ast.Attribute) and c.func.attr in COMPILE_APIS):
                continue
            if c.func.attr == "from_string" and "env" not in ast.unparse(c.func.value).lower():
                continue  # an alternative constructor of some other class, not Environment.from_string
            n += 1
            in_loop = any(c in set(ast.walk(lp)) for lp in loops)
            own = per_file(f, in_loop)
            ok = own or not foldable
            ctx.ob(R, f.module.rel, f"{f.short} :: {c.func.attr}() compiles only the template of the file about to be rendered", ok,
                   "" if ok else f"compile site outside a per-file section ({'inside a loop' if in_loop else 'not on behalf of one rendered file'}) while "
                   f"{sorted(foldable)} can be constant-folded: every template compiled here - including the codec templates that are otherwise compiled by the "
                   "rendering, after UniqueNameGenerator.reset() - has its constant `'tok' | to_template_unique_name` uses evaluated against the counters "
                   "left by the previous file or the previous run of the process", c.lineno)
    ctx.floor(R + ":compile-sites", n, 2)


RUN_CONSTANT_ROOTS = {"nunavut", "options", "ln"}


def rule_folded_load(ctx, px, ts, R="R-C10-RENDER-TIME"):
    """While a counter filter of a language can be constant-folded, its constant uses are numbered when the template *file* that
    contains them is compiled, i.e. the first time the file is loaded in the process, continuing from whatever was drawn before.
    That numbering is the same whichever type happens to be generated first only if every such file is loaded at a point all types
    reach alike: its include / import sits at template top level or under conditions over run constants (nunavut.*, options.*,
    language queries) - never under a test of the type being generated, in a loop or inside a macro.  (Which type comes first is the
    iteration order of a set of namespaces: hash-seed dependent.)"""
    N = ts.nodes
    fold_langs = set()
    for f in px.all_funcs:
        if f.outer is None and f.cls is None and f.name == "filter_to_template_unique_name" and f.module.name.startswith("nunavut.lang."):
            decos = [d.split("(")[0].split(".")[-1] for d in f.decorators]
            if not any(d in ("template_volatile_filter", "template_context_filter", "template_environment_filter", "template_eval_context_filter") for d in decos):
                fold_langs.add(f.module.name.split(".")[2])
    n = 0
    for lang in sorted(fold_langs):
        tl = ts.of_lang(lang, "templates")
        users = [t for t in tl if any(isinstance(x, N.Filter) and "unique_name" in x.name and isinstance(x.node, N.Const) for x in t.ast.find_all(N.Filter))]
        byname = {t.name: t for t in tl}
        # every template through which a user is reached
        need = {t.name for t in users}
        for u in users:
            for t in tl:
                for node, stack in j2front.walk(t.ast):
                    if isinstance(node, (N.Include, N.Import, N.FromImport)) and isinstance(node.template, N.Const) and node.template.value == u.name:
                        n += 1
                        bad = []
                        for g in stack:
                            if g.kind in ("for", "macro"):
                                bad.append(g.kind)
                            elif g.kind in ("if", "condexpr"):
                                for e_, _p in j2front.conj_terms(g.node, g.pol):
                                    roots = {x.name for x in [e_] + list(e_.find_all(N.Name)) if isinstance(x, N.Name)}
                                    calls = {x.node.name for x in [e_] + list(e_.find_all(N.Call)) if isinstance(x, N.Call) and isinstance(x.node, N.Name)}
                                    roots -= {c for c in calls if c.startswith("uses_")}
                                    if not roots <= RUN_CONSTANT_ROOTS:
                                        bad.append(xs(e_))
                        ok = not bad
                        ctx.ob(R, t.rel, f"{lang}: `{u.name}` (constant unique-name draws, folded when the file is compiled) is loaded independently of the type "
                               f"being generated @ {j2front.construct_path(stack)}", ok,
                               "" if ok else f"loaded under {bad}: the file is compiled - and its names numbered - during the first file that reaches this point, after "
                               "whatever that file drew before; which type that is depends on the (hash-ordered) generation order, so the numbering of every header changes "
                               "with PYTHONHASHSEED", getattr(node, "lineno", None))
    if fold_langs:
        ctx.floor(R + ":folded-loads", n, 2)


def cached_property_per_instance(px):
    """nunavut._utilities.cached_property memoises per *instance*: __get__ keeps the value in the instance (its __dict__ / setattr on it)
    and writes nothing to the descriptor, which is one object per class and shared by every instance"""
    cls = px.cls("nunavut._utilities", "cached_property")
    g = cls.methods.get("__get__")
    if g is None:
        return False, "cached_property.__get__ vanished"
    ps = [a.arg for a in g.node.args.args]
    me, inst = ps[0], ps[1]
    own_writes = []
    for n in ast.walk(g.node):
        tg = n.targets if isinstance(n, ast.Assign) else ([n.target] if isinstance(n, (ast.AugAssign, ast.AnnAssign)) and getattr(n, "value", None) is not None else [])
        for t_ in tg:
            if isinstance(t_, ast.Attribute) and isinstance(t_.value, ast.Name) and t_.value.id == me:
                own_writes.append(ast.unparse(t_))
            if isinstance(t_, ast.Subscript) and any(isinstance(x, ast.Name) and x.id == me for x in ast.walk(t_.value)) and \
                    not any(isinstance(x, ast.Name) and x.id == inst for x in ast.walk(t_.value)):
                own_writes.append(ast.unparse(t_))
    if own_writes:
        return False, (f"__get__ stores into the descriptor ({own_writes}): the value computed for the first object of a class is handed to every later object "
                       "(the token encoder of one Language object answers for another one with other stropping rules)")
    # the store goes to the instance
    src = ast.unparse(g.node)
    stores_in_instance = f"{inst}.__dict__" in src or f"setattr({inst}" in src or f"object.__setattr__({inst}" in src
    if not stores_in_instance:
        return False, "the computed value is not stored in the instance"
    return True, "value kept in the instance's __dict__ under the property name; the descriptor holds only the function and the name"


def rule_memo(ctx, px, R="R-C10-MEMO"):
    ctx.rule(
        R,
        "every memoising decorator in the package (lru_cache / cached_property) wraps a callable whose result is a "
        "function of its arguments (incl. self) only: its body reads no ambient state and no attribute of self that "
        "is written outside __init__, and mutates nothing",
    )
    okp, whyp = cached_property_per_instance(px)
    ctx.ob(R, "src/nunavut/_utilities.py", "cached_property :: one value per instance", okp, whyp)
    fb = {id(f.node): f for f in px.all_funcs}
    # attributes written outside __init__, per class
    mutable_attrs = {}
    for f in px.all_funcs:
        top = f
        while top.outer is not None:
            top = top.outer
        if top.cls is None or _fresh_object_method(top):
            continue
        for n in ast.walk(f.node):
            tg = []
            if isinstance(n, ast.Assign):
                tg = n.targets
            elif isinstance(n, ast.AugAssign):
                tg = [n.target]
            for t in tg:
                if isinstance(t, ast.Attribute) and isinstance(t.value, ast.Name) and t.value.id == "self":
                    mutable_attrs.setdefault(top.cls.name, set()).add(t.attr)
    n = 0
    for f in px.all_funcs:
        decos = [d.split("(")[0] for d in f.decorators]
        if not any(d in CACHE_DECOS for d in decos):
            continue
        n += 1
        problems = []
        for s in effects.ambient_sites(f.module, fb):
            if s.func is f:
                problems.append(f"reads ambient {s.what}")
        top = f
        cls = top.cls
        for x in ast.walk(f.node):
            if isinstance(x, ast.Attribute) and isinstance(x.value, ast.Name) and x.value.id == "self" and isinstance(x.ctx, ast.Load):
                if cls is not None and x.attr in mutable_attrs.get(cls.name, ()):
                    # lazily initialised config is written once
                    problems.append(f"reads self.{x.attr}, which is written outside __init__")
            if isinstance(x, (ast.Global, ast.Nonlocal)):
                problems.append("declares global/nonlocal")
        for w in state_writes(px, [f]):
            problems.append(f"writes {w[2]}.{w[3]}")
        # lifetime: a memo without `self` in its key (module function, static/class method) lives as long as the
        # process; it may then only be keyed by plain values - model objects (pydsdl types compare by name/version,
        # not by content) would let one run serve a later run stale results
        params = [a for a in f.node.args.args + f.node.args.kwonlyargs]
        has_self = bool(params) and params[0].arg == "self" and not any("staticmethod" in d or "classmethod" in d for d in f.decorators)
        if not has_self and "cached_property" not in " ".join(decos):
            VALUE_TYPES = {"int", "str", "bool", "float", "bytes"}
            for a in params:
                if a.arg in ("cls",):
                    continue
                ann = ast.unparse(a.annotation) if a.annotation is not None else None
                if ann is None or ann.split(".")[-1] not in VALUE_TYPES:
                    # model objects compare by name/version: harmful when the result retains the object or depends on its content
                    CONTENT = {"attributes", "fields", "fields_except_padding", "constants", "data_type", "inner_type", "request_type",
                               "response_type", "doc", "source_file_path", "extent", "bit_length_set", "deprecated", "fixed_port_id"}
                    reads = sorted({x.attr for x in ast.walk(f.node) if isinstance(x, ast.Attribute) and isinstance(x.value, ast.Name)
                                    and x.value.id == a.arg and x.attr in CONTENT})
                    retains = any(isinstance(r, ast.Return) and r.value is not None and any(
                        isinstance(c, ast.Call) and any(isinstance(v, ast.Name) and v.id == a.arg for v in c.args) for c in ast.walk(r.value))
                        for r in ast.walk(f.node))
                    if reads or retains:
                        problems.append(f"process-wide memo keyed by `{a.arg}: {ann}`: model objects compare by name and version, but the result "
                                        f"{'retains the object' if retains else 'depends on its content ' + str(reads)}; entries outlive the generator "
                                        "run that created them and serve a later run stale results")
        # the object a memoising factory hands out is shared by all its callers: nobody may change it
        for g in px.all_funcs:
            if g is f:
                continue
            holders = set()
            for x in ast.walk(g.node):
                if isinstance(x, ast.Assign) and isinstance(x.value, ast.Call) and (
                        (isinstance(x.value.func, ast.Name) and x.value.func.id == f.name) or
                        (isinstance(x.value.func, ast.Attribute) and x.value.func.attr == f.name)):
                    holders |= {t.id for t in x.targets if isinstance(t, ast.Name)}
            for x in ast.walk(g.node):
                tgt = None
                if isinstance(x, ast.Assign):
                    tgt = [t for t in x.targets if isinstance(t, (ast.Attribute, ast.Subscript))]
                elif isinstance(x, ast.AugAssign) and isinstance(x.target, (ast.Attribute, ast.Subscript)):
                    tgt = [x.target]
                for t in tgt or []:
                    if isinstance(t.value, ast.Name) and t.value.id in holders:
                        problems.append(f"{g.short} changes `{ast.unparse(t)}` on the object returned by the cached {f.name}(): the change persists for "
                                        "every later caller in the process (output depends on which inputs were seen before)")
                if isinstance(x, ast.Call) and isinstance(x.func, ast.Attribute) and x.func.attr in MUTATORS and isinstance(x.func.value, ast.Name) \
                        and x.func.value.id in holders:
                    problems.append(f"{g.short} mutates the object returned by the cached {f.name}() via .{x.func.attr}()")
        ok = not problems
        ctx.ob(R, f.module.rel, f"{f.short} [{'/'.join(d for d in decos if d in CACHE_DECOS)}]", ok,
               "pure memo: result depends on arguments only" if ok else "; ".join(sorted(set(problems))), f.node.lineno)
    ctx.floor(R, n, 3)      # (several per-language copies of one memo may be pulled up into a base class)


def rule_fresh_ctx(ctx, px, ts):
    R = "R-C10-FRESH-CTX"
    ctx.rule(
        R,
        "each type is rendered with a fresh context (template.generate(T=<that type>) per call) and no built-in "
        "template writes to shared namespaces (nunavut, options, ln, uses_queries) via {% do %}, {% set ns.x %} or "
        "mutating calls",
    )
    f = px.func(GEN_MOD, "DSDLCodeGenerator._generate_type")
    gens = [c for c in ast.walk(f.node) if isinstance(c, ast.Call) and isinstance(c.func, ast.Attribute) and c.func.attr in ("generate", "render", "stream")]
    ok = len(gens) == 1 and [k.arg for k in gens[0].keywords] == ["T"] and ast.unparse(gens[0].keywords[0].value) == f.node.args.args[1].arg \
        and not gens[0].args
    ctx.ob(R, f.module.rel, f"{f.short} :: template.generate(T=input_type)", ok,
           "" if ok else "template context is not built from the single type being generated", f.node.lineno)
    # the template object comes from env.get_template(name) - no module-level context reuse (make_module/ shared)
    bad = [c for c in ast.walk(f.node) if isinstance(c, ast.Call) and isinstance(c.func, ast.Attribute) and c.func.attr in ("make_module", "new_context")]
    ctx.ob(R, f.module.rel, f"{f.short} :: no shared template module/context", not bad, "", f.node.lineno)
    # compiled templates live in the environment that compiled them: one environment per generator object, no byte-code cache
    # that outlives it (compiled code carries the compiling run's whitespace settings and constant-folded filter results)
    e = px.func("nunavut.jinja.environment", "CodeGenEnvironment.__init__")
    sup = [c for c in ast.walk(e.node) if isinstance(c, ast.Call) and ast.unparse(c.func) == "super().__init__"]
    if not sup:
        raise AnalysisError("anchor missing: super().__init__ in CodeGenEnvironment.__init__")
    kws = {k.arg: ast.unparse(k.value) for k in sup[0].keywords}
    ok = kws.get("bytecode_cache", "None") == "None" and None not in kws
    ctx.ob(R, e.module.rel, f"{e.short} :: compiled templates are not cached beyond the environment", ok,
           "" if ok else f"bytecode_cache={kws.get('bytecode_cache')}: byte code compiled by an earlier run (other whitespace settings, other folded constants) is reused", sup[0].lineno)
    gi = px.func(GEN_MOD, "CodeGenerator.__init__")
    bc = px.func("nunavut.jinja.environment", "CodeGenEnvironmentBuilder.create")
    fresh_create = all(isinstance(r.value, ast.Call) and ast.unparse(r.value.func) == "CodeGenEnvironment" for r in ast.walk(bc.node) if isinstance(r, ast.Return)) \
        and not any("cache" in d for d in bc.decorators)
    made = []
    for n in ast.walk(gi.node):
        if isinstance(n, ast.Assign) and isinstance(n.value, ast.Call):
            v = ast.unparse(pyfront.subst_locals(gi.node, n.value))
            if v.startswith("CodeGenEnvironment(") or (v.startswith("CodeGenEnvironmentBuilder(") and v.endswith(".create()") and fresh_create):
                made.append(n)
    ok = len(made) == 1 and ast.unparse(made[0].targets[0]).startswith("self.")
    ctx.ob(R, gi.module.rel, f"{gi.short} :: every generator builds its own environment", ok,
           "" if ok else "the template environment is not a fresh per-generator object", gi.node.lineno)
    N = ts.nodes
    shared = {"nunavut", "options", "ln", "uses_queries"}
    n = 0
    for t in ts.templates:
        for node, stack in j2front.walk(t.ast):
            bad_here = None
            if isinstance(node, N.Assign) and isinstance(node.target, N.NSRef) and node.target.name in shared:
                bad_here = f"set {node.target.name}.{node.target.attr}"
            if isinstance(node, N.Call) and isinstance(node.node, N.Getattr) and node.node.attr in MUTATORS | {"__setattr__"}:
                root = node.node.node
                while isinstance(root, (N.Getattr, N.Getitem)):
                    root = root.node
                if isinstance(root, N.Name) and root.name in shared:
                    bad_here = j2front.xs(node)
            if isinstance(node, N.Call) and isinstance(node.node, N.Name) and node.node.name == "setattr":
                bad_here = j2front.xs(node)
            if bad_here:
                n += 1
                ctx.ob(R, t.rel, f"{bad_here} @ {j2front.construct_path(stack)}", False,
                       "template mutates a namespace shared by all files of the run", getattr(node, "lineno", None))
    ctx.ob(R, "src/nunavut/lang", "built-in templates: writes to shared namespaces", n == 0, f"{len(ts.templates)} templates scanned")
    rule_context_free(ctx, px, ts, R)


def rule_context_free(ctx, px, ts, R):
    N = ts.nodes
    # a template that is imported without context is evaluated once per environment and its module is cached: what its top level
    # computes must not depend on anything that changes from call to call or file to file
    PER_CALL = {"nunavut", "T", "now_utc"}
    COUNTERS = counter_filters(px)
    if not COUNTERS:
        raise AnalysisError("anchor missing: no template filter reaches UniqueNameGenerator")
    imported = {}
    for t in ts.templates:
        for node in t.ast.find_all((N.Import, N.FromImport)):
            if isinstance(node.template, N.Const) and not node.with_context:
                imported.setdefault((t.lang, t.kind, node.template.value), []).append(t.rel)
    k = 0
    for t in ts.templates:
        if (t.lang, t.kind, t.name) not in imported:
            continue
        for node in t.ast.body:
            if isinstance(node, N.Macro):
                continue
            for a in [node] + list(node.find_all(N.Assign)):
                if not isinstance(a, N.Assign):
                    continue
                # inside a macro it is evaluated per call
                names = {x.name for x in a.node.find_all(N.Name)} | ({a.node.name} if isinstance(a.node, N.Name) else set())
                hit = sorted(names & PER_CALL)
                # ... nor draw from the per-file name counters: the name would be allocated once, while the first file that imports the
                # template is rendered, and be missing from the numbering of every later file
                hit += sorted({f"| {x.name}" for x in [a.node] + list(a.node.find_all((N.Filter, N.Test))) if isinstance(x, (N.Filter, N.Test))
                               and x.name.split(".")[-1] in COUNTERS})
                k += 1
                tgt = j2front.xs(a.target)
                ctx.ob(R, t.rel, f"top-level `set {tgt}` of a template imported without context reads nothing that changes per call", not hit,
                       "" if not hit else f"reads {hit}: `{t.name}` is imported without context (by {sorted(set(imported[(t.lang, t.kind, t.name)]))[:2]}), so the value is computed once "
                       "per generator and reused for every later file and every later generate_all() call, whatever its arguments", getattr(a, "lineno", None))
    ctx.unit("module_level_sets_in_context_free_imports", k)


def run(ctx):
    ctx.explanation = (
        "C10 is decided by a state inventory: the analyser computes the per-file call graph (per-type generator "
        "methods, every template-callable filter/test/uses function, every post-processor __call__), collects every "
        "write to self./cls./class/module state inside it that is not the initialisation of a fresh object, and "
        "requires each item to be classified (reset per file, pure memo, never reaches text) with the structural "
        "justification re-checked on each run; memoising decorators must wrap pure callables; templates get a fresh "
        "context.  Byte equality of alone-vs-together generation is not observed."
    )
    ctx.declined = ["byte-equality of a type generated alone vs together (two runs)", "state inside user templates / user post-processors"]
    px = pyfront.PyIndex(ctx.root)
    ts = j2front.TemplateSet(ctx.root)
    rule_state(ctx, px)
    rule_render_time(ctx, px)
    rule_folded_load(ctx, px, ts)
    rule_memo(ctx, px)
    rule_fresh_ctx(ctx, px, ts)
