"""
C17 - headers generated with different language options cannot be compiled together.
Static: sibling agreement between option definitions (support header) and option assertions (type header).
"""
import ast
import zlib

import yaml

from nvsa import j2front, pyfront
from nvsa.j2front import xs
from nvsa.report import AnalysisError


def _alpha(expr_str, names):
    """rename loop variables positionally so that `key,value` and `k,v` compare equal"""
    out = expr_str
    for i, n in enumerate(names):
        out = _replace_ident(out, n, f"${i}")
    return out


def _replace_ident(s, name, repl):
    import re
    return re.sub(rf"(?<![A-Za-z0-9_.]){re.escape(name)}(?![A-Za-z0-9_])", repl, s)


def option_loops(ts, t):
    """For loops over options.items() with, per loop: target names, outputs directly in the body, guard stack."""
    N = ts.nodes
    out = []
    for node, stack in j2front.walk(t.ast):
        if isinstance(node, N.For) and xs(node.iter) in ("options.items()",) or (
                isinstance(node, N.For) and xs(node.iter).startswith("options.items()") or (
                isinstance(node, N.For) and "options" in xs(node.iter) and "items" in xs(node.iter))):
            names = [n.name for n in node.target.find_all(N.Name)] if not isinstance(node.target, N.Name) else [node.target.name]
            out.append((node, names, stack))
    return out


def loop_output_exprs(ts, loop):
    """(text, [expression nodes]) of the loop body's direct Output nodes, and of all nested ones (with flag direct)."""
    N = ts.nodes
    res = []
    for child in loop.body:
        if isinstance(child, N.Output):
            res.append((child, True))
    for node, stack in j2front.walk(loop):
        if isinstance(node, N.Output) and all(node is not r[0] for r in res):
            res.append((node, False))
    return res


def classify_loop(ts, loop, names, marker):
    """Find the Output that contains `marker` text; return (name_expr, value_expr, direct?, text) using the first
    expression that mentions the key variable and the first that mentions the value variable."""
    N = ts.nodes
    for outp, direct in loop_output_exprs(ts, loop):
        text = "".join(n.data for n in outp.nodes if isinstance(n, N.TemplateData))
        if marker not in text:
            continue
        key_e = val_e = None
        seen_marker = False
        for n in outp.nodes:
            if isinstance(n, N.TemplateData):
                seen_marker = seen_marker or marker in n.data
                continue
            if not seen_marker:
                continue    # text before the statement itself (a comment line naming the option)
            used = j2front.names_in(n)
            if key_e is None and names and names[0] in used:
                key_e = n
            elif val_e is None and len(names) > 1 and names[1] in used:
                val_e = n
        # text between the two expressions
        between = ""
        seen_key = False
        for n in outp.nodes:
            if n is key_e:
                seen_key = True
                continue
            if n is val_e:
                break
            if seen_key and isinstance(n, N.TemplateData):
                between += n.data
        return key_e, val_e, direct, between
    return None


def _pp_depth_before(ts, t, target):
    """preprocessor conditional nesting of the emitted text at `target` (document order; Jinja structure ignored)"""
    import re
    N = ts.nodes
    stack = []
    done = [False]

    def rec(node):
        if done[0]:
            return
        if node is target:
            done[0] = True
            return
        if isinstance(node, N.TemplateData):
            for m in re.finditer(r"^[ \t]*#[ \t]*(ifndef|ifdef|if|endif)\b([^\n]*)", node.data, flags=re.M):
                if m.group(1) == "endif":
                    if stack:
                        stack.pop()
                else:
                    stack.append("#" + m.group(1) + m.group(2).rstrip()[:40])
            return
        for c in node.iter_child_nodes():
            rec(c)

    rec(t.ast)
    return len(stack), list(stack)


def rule_both_sides(ctx, ts):
    R = "R-C17-BOTH-SIDES"
    ctx.rule(
        R,
        "for C and C++ the support header defines one constant per language option and every type header asserts one "
        "per option: both loops iterate options.items() unfiltered, the assertion compares with ==, and the name and "
        "value transformations are the same expressions on both sides",
    )
    L = "R-C17-LEXICAL"
    ctx.rule(
        L,
        "inside the per-option loops of the support header and of the type headers the option value reaches the generated text only "
        "through to_static_assertion_value (an integer), never raw: identical option sets must yield headers that compile together",
    )
    S = "R-C17-SCOPE"
    ctx.rule(
        S,
        "the option assertions are emitted exactly when the type header includes the support header: under "
        "`not nunavut.support.omit` and under no other condition",
    )
    for lang, def_marker in (("c", "#define"), ("cpp", "constexpr")):
        sup = ts.get(lang, "serialization.j2", "support")
        base = ts.get(lang, "base.j2")
        defs = [(l, n, s, classify_loop(ts, l, n, def_marker)) for l, n, s in option_loops(ts, sup)]
        defs = [d for d in defs if d[3] is not None and d[3][0] is not None and d[3][1] is not None]
        asserts = [(l, n, s, classify_loop(ts, l, n, "static_assert")) for l, n, s in option_loops(ts, base)]
        asserts = [a for a in asserts if a[3] is not None]
        if len(defs) != 1:
            raise AnalysisError(f"anchor missing: option definition loop in {sup.rel} (found {len(defs)})")
        if len(asserts) != 1:
            ctx.ob(R, base.rel, f"{lang}: per-option static_assert loop", False,
                   f"found {len(asserts)} assertion loops over options.items(): option mismatches between type and support headers go undetected")
            continue
        dl, dn, ds, (dk, dv, ddirect, _) = defs[0]
        al, an, as_, (ak, av, adirect, between) = asserts[0]
        for side, loop, rel, direct in (("definition", dl, sup.rel, ddirect), ("assertion", al, base.rel, adirect)):
            unf = loop.test is None and xs(loop.iter) == "options.items()"
            ctx.ob(R, rel, f"{lang}: {side} loop iterates options.items() unfiltered", unf,
                   "" if unf else f"loop is `for ... in {xs(loop.iter)}`" + (f" if {xs(loop.test)}" if loop.test is not None else "") +
                   ": an option skipped on one side is never compared", loop.lineno)
            ctx.ob(R, rel, f"{lang}: {side} is emitted for every iteration (not nested in a condition inside the loop)", direct,
                   "" if direct else "the per-option line sits under an inner condition", loop.lineno)
            skips = [n for n in loop.find_all((ts.nodes.Continue, ts.nodes.Break))]
            ctx.ob(R, rel, f"{lang}: {side} loop has no continue/break", not skips, "", loop.lineno)
        # lexical safety: an option value is free text from the user's YAML (documented values carry their own double quotes:
        # variable_array_type_include: '"my.hpp"'), so it may reach the header only as the integer to_static_assertion_value
        # makes of it.  Printed raw it ends the string literal it sits in, and headers generated from *identical* option sets
        # stop compiling.  (A `//` comment is the one context that a quote cannot leave.)
        for side, loop, names_, rel in (("definition", dl, dn, sup.rel), ("assertion", al, an, base.rel)):
            if len(names_) < 2:
                continue
            vvar = names_[1]
            for outp, _direct in loop_output_exprs(ts, loop):
                line_text = ""
                for e in outp.nodes:
                    if isinstance(e, ts.nodes.TemplateData):
                        line_text = (line_text + e.data).rsplit("\n", 1)[-1]
                        continue
                    if vvar in j2front.names_in(e):
                        as_int = isinstance(e, ts.nodes.Filter) and e.name.split(".")[-1] == "to_static_assertion_value" \
                            and isinstance(e.node, ts.nodes.Name) and e.node.name == vvar
                        in_line_comment = "//" in line_text
                        ok_ = as_int or in_line_comment
                        ctx.ob(L, rel, f"{lang}: {side} prints the option value `{_alpha(xs(e), names_)}` only as an integer constant", ok_,
                               ("integer" if as_int else "inside a // comment") if ok_ else
                               "the raw option value is pasted into the header text: a value that carries double quotes (the documented form of the "
                               "*_include options) terminates the string literal, and the header fails to compile against the support header "
                               "generated from the very same options", getattr(e, "lineno", loop.lineno))
                    line_text += "X"
        if ak is None or av is None:
            ctx.ob(R, base.rel, f"{lang}: assertion uses the option name and value", False, "static_assert does not mention both loop variables", al.lineno)
            continue
        nk_d, nk_a = _alpha(xs(dk), dn), _alpha(xs(ak), an)
        nv_d, nv_a = _alpha(xs(dv), dn), _alpha(xs(av), an)
        ctx.ob(R, base.rel, f"{lang}: option name transformation agrees with the support header", nk_d == nk_a,
               f"both sides: {nk_a}" if nk_d == nk_a else f"support defines {nk_d} but type header asserts {nk_a}", al.lineno)
        ctx.ob(R, base.rel, f"{lang}: option value transformation agrees with the support header", nv_d == nv_a,
               f"both sides: {nv_a}" if nv_d == nv_a else f"support defines {nv_d} but type header asserts {nv_a}", al.lineno)
        ok = "==" in between and "!=" not in between and "<" not in between and ">" not in between
        ctx.ob(R, base.rel, f"{lang}: assertion compares name == value", ok, "" if ok else f"text between the operands: {between!r}", al.lineno)
        # scope
        f = [(e, p) for e, p in j2front.facts(as_) ]
        want = [("nunavut.support.omit", False)]
        ok = f == want
        ctx.ob(S, base.rel, f"{lang}: assertion loop guarded by exactly `not nunavut.support.omit`", ok,
               "" if ok else (f"guards are {f}: " + ("with --omit-serialization-support the header asserts constants that only the (not included) support header defines"
                              if ("nunavut.support.omit", False) not in f else "assertions can be switched off while the support header is still included")),
               al.lineno)
        # emitted-text scope: the assertions may sit inside the header's own include guard only - a further preprocessor
        # conditional (e.g. "check once per translation unit") lets a second, differently generated header go unchecked
        depth, opens = _pp_depth_before(ts, base, al)
        ok = depth == 1
        ctx.ob(S, base.rel, f"{lang}: assertions are outside any preprocessor conditional other than the include guard", ok,
               f"open conditionals: {opens}" if ok else
               f"the assertion loop is emitted inside {opens}: it is compiled at most once per translation unit / configuration, so a "
               "header generated with other options that is included later is never compared", al.lineno)
        # definition side must be unconditional
        fd = j2front.facts(ds)
        ctx.ob(S, sup.rel, f"{lang}: option constants defined unconditionally in the support header", not fd, "" if not fd else f"under {fd}", dl.lineno)


def rule_options_view(ctx, ts, px):
    """R-C17-BOTH-SIDES, the Python half: the two loops are only as complete as what `options.items()` hands them.  The template
    namespace must return the complete mapping (no filter) every time, as a view that can be walked again: a header that fetches the
    items once and walks them twice (comment block, assertion block) finds a one-shot iterator exhausted at the second loop and emits
    no assertion at all."""
    R = "R-C17-BOTH-SIDES"
    cls = px.cls("nunavut.jinja.environment", "LanguageTemplateNamespace")
    for mname in ("items",):
        f = cls.methods.get(mname)
        if f is None:
            raise AnalysisError(f"anchor missing: LanguageTemplateNamespace.{mname}")
        rets = [pyfront.subst_locals(f.node, r.value) for r in ast.walk(f.node) if isinstance(r, ast.Return) and r.value is not None]
        if not rets:
            raise AnalysisError(f"anchor missing: return of LanguageTemplateNamespace.{mname}")

        def classify(e):
            if isinstance(e, ast.Call) and isinstance(e.func, ast.Attribute) and e.func.attr == mname and not e.args:
                inner = ast.unparse(e.func.value).replace(" ", "")
                if inner in ("self.__dict__", "vars(self)", "dict(self.__dict__)", "dict(vars(self))"):
                    return "view", True
            if isinstance(e, ast.Call) and isinstance(e.func, ast.Name) and e.func.id in ("list", "tuple", "sorted", "dict") and len(e.args) == 1:
                k, complete = classify(e.args[0])
                return "view", complete
            if isinstance(e, (ast.ListComp, ast.DictComp)):
                return "view", not any(g.ifs for g in e.generators)
            if isinstance(e, ast.GeneratorExp):
                return "one-shot", not any(g.ifs for g in e.generators)
            if isinstance(e, ast.Call) and isinstance(e.func, ast.Name) and e.func.id in ("iter", "map", "filter", "zip", "reversed"):
                return "one-shot", e.func.id != "filter"
            return "?", True
        kinds = [classify(r) for r in rets]
        reiterable = all(k == "view" for k, _c in kinds)
        complete = all(c for _k, c in kinds)
        # (a filter applied here hides an option from the defining and the asserting loop alike; both stay in step, so it is not judged)
        ctx.ob(R, f.module.rel, f"{f.short} :: what it returns is recognised (view or one-shot iterator)", all(k != "?" for k, _ in kinds),
               "" if all(k != "?" for k, _ in kinds) else f"`return {ast.unparse(rets[0])[:80]}`", f.node.lineno)
        shared = []
        for t in ts.templates:
            if t.lang in ("c", "cpp"):
                for name, expr, uses, ln in getattr(t.ast, "nvsa_shared_iterables", []) or []:
                    if "options" in expr:
                        shared.append((t, name, expr, uses, ln))
        for t, name, expr, uses, ln in shared:
            ctx.ob(R, t.rel, f"{t.lang}: `{name} = {expr}` is walked {uses} times: the namespace returns a view that can be walked again", reiterable,
                   "" if reiterable else f"{f.short} returns a one-shot iterator (`{ast.unparse(rets[0])[:60]}`): the first loop over `{name}` uses it up and the next one - "
                   "the per-option assertions - runs over nothing, so headers generated with different options compile together", ln)


def rule_include_scope(ctx, px):
    S = "R-C17-SCOPE"
    f = px.func("nunavut.lang._common", "IncludeGenerator.generate_include_filepart_list")
    if f.cls is not None:
        import copy as _copy
        f_ = _copy.copy(f)
        f_.node = pyfront.inline_value_calls(f.node, {k_: m_.node for k_, m_ in f.cls.methods.items()})
        f = f_
    found = False
    def mentions_support(e):
        """the expression enumerates the serialization support files - directly or through a helper method of the class"""
        if "SERIALIZATION_SUPPORT" in ast.unparse(e):
            return True
        for c in ast.walk(e):
            if isinstance(c, ast.Call) and isinstance(c.func, ast.Attribute) and isinstance(c.func.value, ast.Name) and c.func.value.id in ("self", "cls") \
                    and f.cls is not None and c.func.attr in f.cls.methods and "SERIALIZATION_SUPPORT" in ast.unparse(f.cls.methods[c.func.attr].node):
                return True
        return False

    for st, gd in pyfront.walk_guarded(f.node.body):
        adds = (isinstance(st, ast.AugAssign) and mentions_support(st.value)) or \
            (isinstance(st, ast.Expr) and isinstance(st.value, ast.Call) and isinstance(st.value.func, ast.Attribute) and st.value.func.attr in ("extend", "append")
             and any(mentions_support(a) for a in st.value.args)) or \
            (isinstance(st, ast.For) and mentions_support(st.iter))      # a loop over the support files that appends each
        if adds:
            found = True
            terms = pyfront.guard_terms(gd)
            # `xs += [] if self._omit_serialization_support else [<support headers>]`: the conditional expression is the guard
            v_ = st.value if isinstance(st, ast.AugAssign) else (st.value.args[0] if isinstance(st, ast.Expr) and st.value.args else None)
            if isinstance(v_, ast.IfExp) and not terms:
                empty_ = lambda e_: isinstance(e_, (ast.List, ast.Tuple)) and not e_.elts      # noqa: E731
                if empty_(v_.body) and mentions_support(v_.orelse):
                    terms = pyfront.guard_terms([(v_.test, False)])
                elif empty_(v_.orelse) and mentions_support(v_.body):
                    terms = pyfront.guard_terms([(v_.test, True)])
            ok = terms == [("self._omit_serialization_support", False)]
            ctx.ob(S, f.module.rel, f"{f.short} :: support header included exactly when serialization support is not omitted", ok,
                   "" if ok else f"guards: {terms}", st.lineno)
    if not found:
        raise AnalysisError("anchor missing: support header inclusion in generate_include_filepart_list")
    # the flag reaching templates (nunavut.support.omit) and the flag reaching the include generator are the same one
    env = px.func("nunavut.jinja.environment", "CodeGenEnvironment.update_nunavut_globals")
    ok = "'omit': omit_serialization_support" in ast.unparse(env.node)
    ctx.ob(S, env.module.rel, f"{env.short} :: nunavut.support.omit is the omit_serialization_support argument", ok, "", env.node.lineno)
    for modname in ("nunavut.lang.c", "nunavut.lang.cpp"):
        m = px.module(modname)
        fi = m.funcs.get("filter_includes")
        if fi is None:
            raise AnalysisError(f"anchor missing: filter_includes in {modname}")
        src = ast.unparse(fi.node)
        ok = "IncludeGenerator(language, t, language.omit_serialization_support" in src.replace("\n", "") or "omit_serialization_support" in src
        ctx.ob(S, m.rel, f"{fi.short} :: passes the language's omit flag to the include generator", ok, "", fi.node.lineno)


def rule_value(ctx, px, root):
    R = "R-C17-VALUE"
    ctx.rule(
        R,
        "to_static_assertion_value handles every value type that occurs in the `options` of properties.yaml for C and "
        "C++ (bool before int, str) and fails generation for any other type; distinct documented string values map "
        "to distinct constants (crc32 injective on each documented choice set)",
    )
    f = px.func("nunavut.lang.c", "filter_to_static_assertion_value")
    objp = f.node.args.args[0].arg
    KINDS = {"bool": {"bool", "int", "object"}, "int": {"int", "object"}, "str": {"str", "object"}, "float": {"float", "object"}, "NoneType": {"object"}}

    def truth(test, kind):
        """value of a type test on the parameter for a value of the given kind (None = not decidable)"""
        if isinstance(test, ast.UnaryOp) and isinstance(test.op, ast.Not):
            v = truth(test.operand, kind)
            return None if v is None else not v
        if isinstance(test, ast.BoolOp):
            vs = [truth(v, kind) for v in test.values]
            if isinstance(test.op, ast.And):
                return False if any(v is False for v in vs) else (None if any(v is None for v in vs) else True)
            return True if any(v is True for v in vs) else (None if any(v is None for v in vs) else False)
        if isinstance(test, ast.Call) and ast.unparse(test.func) == "isinstance" and len(test.args) == 2 and ast.unparse(test.args[0]) == objp:
            ts_ = test.args[1].elts if isinstance(test.args[1], ast.Tuple) else [test.args[1]]
            return any(ast.unparse(t_) in KINDS[kind] for t_ in ts_)
        if isinstance(test, ast.Compare) and len(test.ops) == 1 and ast.unparse(test.left) == f"type({objp})" and isinstance(test.ops[0], (ast.Is, ast.Eq)):
            return ast.unparse(test.comparators[0]) == kind
        if isinstance(test, ast.Compare) and len(test.ops) == 1 and ast.unparse(test.left) == objp and isinstance(test.ops[0], (ast.Is, ast.IsNot)) \
                and ast.unparse(test.comparators[0]) == "None":
            return (kind == "NoneType") == isinstance(test.ops[0], ast.Is)
        return None

    def resolve(e, kind):
        if isinstance(e, ast.IfExp):
            v = truth(e.test, kind)
            if v is not None:
                return resolve(e.body if v else e.orelse, kind)
        return e

    def outcomes(stmts, kind):
        """set of ('return', expr text) / ('raise',) / ('fall',) the statement list can end in for a value of this kind"""
        out = set()
        for i_, st in enumerate(stmts):
            if isinstance(st, ast.Return):
                v = resolve(pyfront.subst_locals(f.node, st.value), kind) if st.value is not None else None
                return out | {("return", ast.unparse(v) if v is not None else "None")}
            if isinstance(st, ast.Raise):
                return out | {("raise",)}
            if isinstance(st, ast.If):
                v = truth(st.test, kind)
                res = set()
                if v is not False:
                    res |= outcomes(st.body, kind)
                if v is not True:
                    res |= outcomes(st.orelse, kind)
                out |= {r for r in res if r != ("fall",)}
                if ("fall",) not in res:
                    return out
        return out | {("fall",)}

    res = {k: outcomes(f.node.body, k) for k in KINDS}
    handled = [k for k in ("bool", "int", "str") if res[k] and all(r[0] == "return" for r in res[k])]
    ok = all(res[k] == {("raise",)} for k in ("float", "NoneType"))
    ctx.ob(R, f.module.rel, f"{f.short} :: any other type fails generation (final raise)", ok,
           "" if ok else f"unknown value types yield a silent constant: float -> {sorted(res['float'])}, None -> {sorted(res['NoneType'])}", f.node.lineno)

    def squash(t):
        return t.replace(" ", "").replace('"', "'").replace("zlib.", "")
    as_int = {f"1if{objp}else0", f"int({objp})", f"0ifnot{objp}else1", f"int(bool({objp}))"}
    ok = bool(res["bool"]) and all(r[0] == "return" and squash(r[1]) in as_int for r in res["bool"]) and \
        bool(res["int"]) and all(r[0] == "return" and squash(r[1]) in (objp, f"int({objp})") for r in res["int"])
    ctx.ob(R, f.module.rel, f"{f.short} :: bool handled before int", ok, f"bool -> {sorted(res['bool'])}, int -> {sorted(res['int'])}", f.node.lineno)
    # str -> crc32 of the utf-8 bytes of the whole string
    crc_forms = {f"crc32(bytearray({objp},'utf-8'))", f"crc32(bytes({objp},'utf-8'))", f"crc32({objp}.encode('utf-8'))", f"crc32({objp}.encode())",
                 f"crc32({objp}.encode(encoding='utf-8'))"}
    ok = bool(res["str"]) and all(r[0] == "return" and squash(r[1]).replace("&4294967295", "").replace("&0xffffffff", "").strip("()") in
                                  {c_.strip("()") for c_ in crc_forms} for r in res["str"])
    ctx.ob(R, f.module.rel, f"{f.short} :: strings hashed over their complete utf-8 encoding", ok, f"str -> {sorted(res['str'])}", f.node.lineno)
    cfg = yaml.safe_load((root / "src" / "nunavut" / "lang" / "properties.yaml").read_text())
    n = 0
    str_values = {}
    for sect in ("nunavut.lang.c", "nunavut.lang.cpp"):
        opts = dict(cfg[sect].get("options") or {})
        groups = [("options", opts)] + [(f"defaults.{k}", v) for k, v in (cfg[sect].get("defaults") or {}).items()]
        for gname, g in groups:
            for k, v in g.items():
                n += 1
                tname = type(v).__name__
                ok = tname in handled
                ctx.ob(R, "src/nunavut/lang/properties.yaml", f"{sect}.{gname}.{k} : {tname}", ok,
                       "" if ok else f"value type {tname} is not handled by to_static_assertion_value: generation fails or the option is not comparable")
                if isinstance(v, str):
                    str_values.setdefault(k, set()).add(v)
    ctx.floor(R, n, 15)
    # documented choices from argparse
    cli = px.module("nunavut.cli")
    for c in ast.walk(cli.tree):
        if isinstance(c, ast.Call) and isinstance(c.func, ast.Attribute) and c.func.attr == "add_argument":
            kw = {k.arg: k.value for k in c.keywords}
            flags = [a.value for a in c.args if isinstance(a, ast.Constant)]
            if "choices" in kw and isinstance(kw["choices"], ast.List) and flags and flags[0] in ("--target-endianness", "--language-standard"):
                key = {"--target-endianness": "target_endianness", "--language-standard": "std"}[flags[0]]
                for e in kw["choices"].elts:
                    if isinstance(e, ast.Constant) and isinstance(e.value, str):
                        str_values.setdefault(key, set()).add(e.value)
    for k, vals in sorted(str_values.items()):
        hashes = {}
        for v in vals:
            hashes.setdefault(zlib.crc32(bytearray(v, "utf-8")), []).append(v)
        coll = [vs for vs in hashes.values() if len(vs) > 1]
        ctx.ob(R, "src/nunavut/lang/properties.yaml", f"option {k}: {len(vals)} documented string value(s) map to distinct constants", not coll,
               "" if not coll else f"crc32 collision between {coll}")


def rule_fold(ctx, px):
    R = "R-C17-VALUE"
    # (shares the rule text of R-C17-VALUE: distinct option values must stay distinct up to the compared constant)
    for lang in ("c", "cpp"):
        cls = px.cls(f"nunavut.lang.{lang}", "Language")
        m = cls.methods.get("_validate_language_options")
        if m is None:
            ctx.ob(R, cls.module.rel, f"{lang}: language options reach the templates as configured (no per-language rewriting hook)", True,
                   "Language._validate_language_options is not overridden")
            continue
        params = [a.arg for a in m.node.args.args]
        opt = params[2] if len(params) > 2 else "options"
        folds = []
        for st, gd in pyfront.walk_guarded(m.node.body):
            stores = []
            if isinstance(st, ast.Assign) and isinstance(st.targets[0], ast.Subscript) and ast.unparse(st.targets[0].value) == opt:
                stores.append((st.targets[0].slice, st.value))
            if isinstance(st, ast.Expr) and isinstance(st.value, ast.Call) and isinstance(st.value.func, ast.Attribute) and ast.unparse(st.value.func.value) == opt \
                    and st.value.func.attr == "update" and st.value.args and isinstance(st.value.args[0], ast.Dict):
                stores += list(zip(st.value.args[0].keys, st.value.args[0].values))
            if isinstance(st, ast.Expr) and isinstance(st.value, ast.Call) and isinstance(st.value.func, ast.Attribute) and ast.unparse(st.value.func.value) == opt \
                    and st.value.func.attr == "setdefault":
                continue    # fills an absent option only
            for key, val in stores:
                val_n = pyfront.subst_locals(m.node, val)
                depends = any(isinstance(x, ast.Name) and x.id in params[1:] for x in ast.walk(val_n))
                k = ast.unparse(key)
                terms = pyfront.guard_terms(gd)
                absent = any((e in (f"{k} not in {opt}", f"{opt}.get({k}) is None") and pol) or (e in (f"{k} in {opt}",) and not pol) for e, pol in terms)
                if not depends and not absent:
                    folds.append((k, ast.unparse(val), terms, st.lineno))
        ok = not folds
        ctx.ob(R, m.module.rel, f"{lang}: {m.short} stores no fixed value over a configured option", ok,
               "" if ok else "; ".join(f"options[{k}] = {v} under {t}: several configured values of the option are folded into one, so headers generated with "
                                       "different values carry the same constant and compile together" for k, v, t, _ in folds), folds[0][3] if folds else m.node.lineno)


def rule_options_published(ctx, px):
    """R-C17-VALUE: the option set the templates enumerate (Language.get_options) is the configured one.  A language that overrides
    get_options to leave keys out hides them from both the defining and the asserting loop, while the Python side (get_option in
    get_includes, the filters) still lets them shape the headers: two headers that differ in such an option compile together."""
    R = "R-C17-VALUE"
    for lang in ("c", "cpp"):
        cls = px.cls(f"nunavut.lang.{lang}", "Language")
        m = cls.methods.get("get_options")
        if m is None:
            ctx.ob(R, cls.module.rel, f"{lang}: every configured option is published to the templates (get_options not overridden)", True, "")
            continue
        lossy = []
        for r in [x for x in ast.walk(m.node) if isinstance(x, ast.Return) and x.value is not None]:
            v = pyfront.subst_locals(m.node, r.value)
            for c in ast.walk(v):
                if isinstance(c, (ast.DictComp, ast.ListComp, ast.GeneratorExp, ast.SetComp)) and any(g.ifs for g in c.generators):
                    lossy.append(f"line {r.lineno}: filtered comprehension `{ast.unparse(c)[:70]}`")
        for c in ast.walk(m.node):
            if isinstance(c, ast.Call) and isinstance(c.func, ast.Attribute) and c.func.attr in ("pop", "popitem", "clear"):
                lossy.append(f"line {c.lineno}: {ast.unparse(c)[:50]}")
            if isinstance(c, ast.Delete):
                lossy.append(f"line {c.lineno}: {ast.unparse(c)[:50]}")
        ctx.ob(R, cls.module.rel, f"{lang}: {m.short} publishes every configured option to the templates", not lossy,
               "" if not lossy else f"{lossy}: an option left out here is neither defined in the support header nor asserted in the type headers, although "
               "get_option() still reads it when the headers are generated", m.node.lineno)


def run(ctx):
    ctx.explanation = (
        "C17 is decided as a sibling-agreement check over the template ASTs: the loop that defines the per-option "
        "constants in the C/C++ support header and the loop that asserts them in every type header must both iterate "
        "options.items() unfiltered and build name and value with the same expressions; the assertion must be scoped "
        "exactly like the inclusion of the support header; the value filter must cover every option value type in "
        "properties.yaml.  The compiler's rejection of a mixed build is not observed."
    )
    ctx.declined = ["'the build is rejected' as a compiler outcome"]
    ts = j2front.TemplateSet(ctx.root)
    px = pyfront.PyIndex(ctx.root)
    rule_both_sides(ctx, ts)
    from checks import _lines
    _lines.rule_comment_eol(ctx, ts, "R-C17-BOTH-SIDES", only=("base.j2",), floor=2)      # an assertion glued onto a `//` line is no assertion
    rule_options_view(ctx, ts, px)
    rule_include_scope(ctx, px)
    rule_value(ctx, px, ctx.root)
    rule_fold(ctx, px)
    rule_options_published(ctx, px)
