"""C++ half of the C14 check: rules over the clang AST of nunavut/support/serialization.hpp at one option point."""
import re
import typing

from nvsa import cast
from nvsa.report import AnalysisError

from ._c14_c import View, _calls, _tail_shape, byte_assembly, byte_table, rmw_core
from ._c14_common import (print_shape, rule_f16_special, rule_f16_pack_order, rule_shift_range, LITERAL_BITS, alpha_print, flat, is_int, is_min, name_width, res, return_type, then_returns, times8, type_bytes, upper_bound,
                          zero_fill_guard_ok, early_exit_before)

THIS = ("this",)
DATA_SIZE = ("mcall", ("ref", "data_"), "size", ())
OFFSET = ("ref", "offset_bits_")
SATM = "saturateBufferFragmentBitLength"
ERR = "SerializationBufferTooSmall"


def _mcalls(t):
    return [x for x in cast.subterms(t) if x[0] == "mcall"]


def _has_this(t) -> bool:
    return any(x == THIS for x in cast.subterms(t))


def _guards(v: View, before_top: int):
    """top-level `if (<too small>) return -SerializationBufferTooSmall;` before a top-level statement -> (terms, slack)"""
    out = []
    for s in v.stmts:
        if s.guards or s.top >= before_top or s.node.get("kind") != "IfStmt":
            continue
        ret = then_returns(s.node)
        if ret is None or ERR not in cast.term_refs(ret) or not any(x[0] == "un" and x[1] == "-" for x in cast.subterms(ret)):
            continue
        c = cast.term(s.node["inner"][0])
        size_call0 = ("mcall", THIS, "size", ())
        if c[0] == "bin" and c[1] == "==" and ((c[2] == size_call0 and is_int(c[3], 0)) or (c[3] == size_call0 and is_int(c[2], 0))):
            c = ("bin", "<", size_call0, ("int", 1, "unsigned int"))      # nothing left  ==  less than one bit left
        if c[0] == "un" and c[1] == "!" and c[2] == size_call0:
            c = ("bin", "<", size_call0, ("int", 1, "unsigned int"))
        if c[0] != "bin" or c[1] not in ("<", "<=", ">", ">="):
            continue
        op, a, b = c[1], c[2], c[3]
        # form (ii): L > size()   /   size() < L
        size_call = ("mcall", THIS, "size", ())
        if a == size_call or b == size_call:
            if b == size_call:
                a, b = b, a
                op = {"<": ">", "<=": ">=", ">": "<", ">=": "<="}[op]
            if op in ("<", "<="):   # size() < L -> error
                out.append(([OFFSET] + flat("+", b), 1 if op == "<=" else 0, s))
            continue
        if times8(b) is not None and times8(a) is None:
            a, b = b, a
            op = {"<": ">", "<=": ">=", ">": "<", ">=": "<="}[op]
        if times8(a) != DATA_SIZE or op not in ("<", "<="):
            continue
        out.append((flat("+", b), 1 if op == "<=" else 0, s))
    return out


def _covered(ext, terms, slack) -> typing.Tuple[bool, str]:
    rest = list(terms)
    if OFFSET not in rest:
        return False, "the check does not involve offset_bits_"
    rest.remove(OFFSET)
    const = slack + sum(t[1] for t in rest if t[0] == "int")
    syms = [t for t in rest if t[0] != "int"]
    if ext[0] == "int":
        return ext[1] <= const, f"stores {ext[1]} bit(s) but the check covers {const}"
    if ext in syms or (is_min(ext) and any(a in syms for a in ext[2])):
        return True, ""
    free = cast.term_refs(ext) - {"offset_bits_"}
    if free and free <= set().union(*[cast.term_refs(t) for t in syms] or [set()]):
        return True, ""
    return False, f"stored extent `{cast.show(ext)}` is not covered by the checked length `{'+'.join(cast.show(t) for t in rest) or '0'}`"


def rule_set_bound(ms) -> typing.List[dict]:
    R = "R-C14-SET-BOUND"
    out = []
    views = {k: View(k, fn) for k, fn in ms.items() if k.startswith("bitspan::") and not k.startswith("bitspan::bitspan")}
    writers: typing.Dict[str, list] = {}
    for k, v in views.items():
        ws = []
        for s, t in v.terms():
            for c in _mcalls(t):
                if c[2] == "copyTo" and c[3] and _has_this(c[3][0]):
                    ws.append((s, "copyTo(*this, ...)", c[3][1] if len(c[3]) > 1 else None))
            for c in _calls(t):
                if c[1] in ("memset", "memmove", "memcpy") and len(c[2]) == 3 and "data_" in cast.term_refs(c[2][0]):
                    ws.append((s, f"{c[1]}(data_...)", c[2][2]))
            if t[0] == "bin" and t[1].endswith("=") and t[1] not in ("==", "!=", "<=", ">=", ":=") and t[2][0] == "idx" and "data_" in cast.term_refs(t[2][1]):
                ws.append((s, f"store {cast.show(t[2])}", None))
        if ws:
            writers[k] = ws
    short = {k.split("::")[1].split("/")[0] for k in writers}
    for k, ws in writers.items():
        v = views[k]
        for s, what, ext in ws:
            gs = _guards(v, s.top)
            c = f"{k}: {what}"
            if not gs:
                out.append(res(R, k, c, False, "no dominating buffer-too-small check"))
                continue
            moved = [s2 for s2, t2 in v.terms() if gs[0][2].top < s2.top < s.top and
                     (any(m[2] in ("add_offset", "set_offset") for m in _mcalls(t2)) or (t2[0] == "bin" and t2[1].endswith("=") and t2[2] == OFFSET))]
            if moved:
                out.append(res(R, k, c, False, "offset_bits_ is modified between the check and the store"))
                continue
            if ext is None:
                out.append(res(R, k, c, True))
                continue
            e = cast.substitute(ext, v.env(s.index))
            verdicts = [_covered(e, g[0], g[1]) for g in gs]
            out.append(res(R, k, c, any(x[0] for x in verdicts), verdicts[0][1]))
    # wrappers: calls on this to a writer
    for k, v in views.items():
        for s, t in v.terms():
            for c in _mcalls(t):
                if c[1] == THIS and c[2] in short and k not in writers:
                    out.append(res(R, k, f"{k}: delegates the store to {c[2]}", True))
    return out


def _dst_capacity(d, v: View):
    """(capacity in bits, local name or None, declared-size-ok, kind)"""
    if d[0] == "ctor" and d[1].endswith("bitspan"):
        a = d[2]
        if len(a) >= 1 and a[0][0] == "ref" and a[0][1] in v.defs and len(a) == 1:
            b = type_bytes(v.defs[a[0][1]][1])
            return (b * 8 if b else None), a[0][1], True
        if len(a) >= 2 and a[0][0] == "un" and a[0][1] == "&" and a[0][2][0] == "ref" and a[0][2][1] in v.defs:
            loc = a[0][2][1]
            b = type_bytes(v.defs[loc][1])
            sz = a[1]
            if sz[0] == "int":
                n = sz[1]
            elif sz[0] == "sizeof":
                inner = sz[1]
                n = type_bytes(v.defs[inner[1]][1]) if inner[0] == "ref" and inner[1] in v.defs else (type_bytes(inner[1]) if inner[0] == "type" else None)
            else:
                n = None
            ok = b is not None and n is not None and n <= b
            return (n * 8 if n is not None else None), loc, ok
    if d[0] == "ref" and d[1] in v.defs:
        b = type_bytes(v.defs[d[1]][1])
        return (b * 8 if b else None), d[1], True
    return None, None, True



# ---- helper methods and equivalent spellings ----------------------------------------------------------------------------------
PRIMITIVE_METHODS = {SATM, "copyTo", "size", "getU8", "getU16", "getU32", "getU64", "setUxx", "setZeros", "subspan", "aligned_ref", "aligned_ptr"}


from ._c14_common import norm as _norm  # noqa: E402


def _strip_self(t):
    """`self.member` where `self` is `*this` (CRTP base) is the member itself"""
    if not isinstance(t, tuple) or not t:
        return t
    if t[0] == "mem" and t[1] in (("ref", "self"), ("un", "*", ("this",)), ("this",)):
        return ("ref", t[2])
    return tuple(_strip_self(x) if isinstance(x, tuple) else x for x in t)


def method_expr(ms, name: str, args, depth: int = 0):
    """the value a simple const helper method returns, as one expression over its arguments (None when the method is not simple:
    anything but local declarations, guard-returns and a final return)"""
    cands = [k for k in ms if k.split("::")[-1].split("/")[0] == name and len(cast.param_types(ms[k])) == len(args)]
    if len(cands) > 1:
        base = [k for k in cands if k.startswith("any_bitspan::")]       # the CRTP base both span classes derive from
        cands = base if len(base) == 1 else cands
    if len(cands) != 1 or depth > 3:
        return None
    v = View(cands[0], ms[cands[0]])
    env = dict(zip(v.params, args))
    guards = []
    result = None
    for s in v.stmts:
        k = s.node.get("kind")
        if k == "DeclStmt" and not s.guards:
            for nm, _ty, init in cast.decls_of(s):
                if init is None:
                    return None
                env[nm] = _strip_self(cast.substitute(init, env))
            continue
        if k == "IfStmt" and not s.guards:
            r = then_returns(s.node)
            if r is None:
                return None
            guards.append((_strip_self(cast.substitute(cast.term(s.node["inner"][0]), env)), _strip_self(cast.substitute(r, env))))
            continue
        if s.guards:
            continue      # the body of a guard-return, handled above
        t = cast.stmt_term(s)
        if t is None:
            continue
        if t[0] == "un" and t[1] == "return":
            result = _strip_self(cast.substitute(t[2], env))
            continue
        if t[0] == "call" and "assert" in str(t[1]).lower():
            continue
        return None
    if result is None:
        return None
    for c, r in reversed(guards):
        result = ("cond", c, r, result)
    return _norm(inline_helpers(result, ms, depth + 1))


def inline_helpers(t, ms, depth: int = 0, keep=PRIMITIVE_METHODS):
    """replace calls of simple helper methods on `this` (other than the primitives the rules talk about) by what they compute"""
    if not isinstance(t, tuple) or not t:
        return t
    t = tuple(inline_helpers(x, ms, depth, keep) if isinstance(x, tuple) else x for x in t)
    if t and t[0] == "mcall" and t[1] == THIS and t[2] not in keep:
        e = method_expr(ms, t[2], list(t[3]), depth)
        if e is not None:
            return e
    return t


def rule_get(ms, clamp_present: bool) -> typing.List[dict]:
    out = []
    sat = {SATM}
    for k, fn in ms.items():
        if not k.startswith("const_bitspan::") or k.startswith("const_bitspan::const_bitspan") or k.startswith("const_bitspan::copyTo"):
            continue
        v = View(k, fn)
        W = name_width(k)
        for s, t in v.terms():
            for c in _mcalls(t):
                if c[2] == "copyTo" and c[1] == THIS and len(c[3]) == 2:
                    env = v.env(s.index)
                    n = _norm(inline_helpers(cast.substitute(c[3][1], env), ms))
                    while n[0] == "call" and n[1] in ("static_cast", "uint8_t") and len(n[2]) == 1:
                        n = n[2][0]
                    site_sat = n[0] == "mcall" and n[2] == SATM
                    R = "R-C14-GET-SAT"
                    out.append(res(R, k, f"{k}: read length is bounded by the source size", site_sat or clamp_present,
                                   f"length `{cast.show(n)}` is not saturated and copyTo does not clamp to size()"))
                    cap, loc, decl_ok = _dst_capacity(c[3][0], v)
                    if loc is not None:
                        init = v.defs[loc][0]
                        zero = init is not None and (is_int(init, 0) or init[0] == "init")
                        out.append(res(R, k, f"{k}: destination `{loc}` is zero-initialised before the copy", zero,
                                       f"`{loc}` has no zero initialiser: bits past the buffer end would not read as zero"))
                        ub = upper_bound(n, v.params, sat)
                        RW = "R-C14-WIDTH"
                        ok = decl_ok and cap is not None and ub is not None and ub <= cap
                        out.append(res(RW, k, f"{k}: copied length fits the destination local", ok,
                                       f"length is bounded by {ub} bit(s); the span over `{loc}` ({v.defs[loc][1]}) holds {cap}"
                                       + ("" if decl_ok else " and is declared larger than the local")))
                        if W is not None:
                            rt = type_bytes(return_type(fn))
                            ok = ub == W and rt is not None and rt * 8 == W
                            out.append(res(RW, k, f"{k}: saturation constant, return type and name agree on the width", ok,
                                           f"name says {W}, saturation constant is {ub}, return type {return_type(fn)}"))
                    else:
                        pre_s = [(s2, c2) for s2, t2 in v.terms() if s2.top < s.top for c2 in _calls(t2) if c2[1] == "memset" and is_int(c2[2][1], 0)]
                        pre = [c2 for _s2, c2 in pre_s]
                        ok = bool(pre)
                        detail = "no memset of the output tail before the copy"
                        if ok:
                            gok, gdetail = zero_fill_guard_ok(pre_s[0][0].guards, pre[0][2][2], env)
                            if gok:
                                gok, gdetail = early_exit_before(v.stmts, pre_s[0][0].index, {p_ for p_ in v.params if "len" in p_})
                            out.append(res(R, k, f"{k}: the zero fill of the output tail is not skipped while bytes remain to be cleared", gok, gdetail))
                            start, count = cast.substitute(pre[0][2][0], env), cast.substitute(pre[0][2][2], env)
                            frag = cast.show(("bin", "/", n, ("int", 8, "")))
                            ok = frag in cast.show(start) and frag in cast.show(count) and "len_bits" in cast.show(count)
                            detail = f"memset({cast.show(start)}, 0, {cast.show(count)}) does not span [saturated/8, ceil(len/8))"
                        out.append(res(R, k, f"{k}: output tail zero-extended before the copy", ok, detail))
                elif c[1] == THIS and re.fullmatch(r"getU(8|16|32|64)", c[2]) and W is not None:
                    ln = cast.substitute(c[3][-1], v.env(s.index))
                    ub = upper_bound(ln, v.params, sat)
                    Wc = int(c[2][4:])
                    out.append(res("R-C14-WIDTH", k, f"{k}: delegates to the {W}-bit unsigned getter with a length saturated to {W}", Wc == W and ub == W,
                                   f"calls {c[2]} with length `{cast.show(ln)}` (bound {ub})"))
    return out


def rule_copy_source(ms, clamp_present: bool) -> typing.List[dict]:
    """R-C14-GET-SAT for copies whose *source* is a span built over a local (the setters copy out of an 8-byte image of the value):
    the number of bits copied is bounded by what that source holds - by copyTo itself (it clamps the length to size()), or by the
    length expression at the call (min with 64 / the saturation helper).  With neither, a length above the source's size reads past
    the local and writes the surplus bits - stack garbage - into the destination."""
    R = "R-C14-GET-SAT"
    out = []
    sat = {SATM}
    for k, fn in ms.items():
        if not k.startswith("bitspan::"):
            continue
        v = View(k, fn)
        for s, t in v.terms():
            for c in _mcalls(t):
                if c[2] != "copyTo" or len(c[3]) != 2 or c[1] == THIS:
                    continue
                env = v.env(s.index)
                n = _norm(inline_helpers(cast.substitute(c[3][1], env), ms))
                while n[0] == "call" and n[1] in ("static_cast", "uint8_t") and len(n[2]) == 1:
                    n = n[2][0]
                ub = upper_bound(n, {}, sat)       # a bare uint8_t parameter (up to 255) is no bound for an 8-byte source
                ok = clamp_present or (ub is not None and ub <= 64)
                out.append(res(R, k, f"{k}: the length copied out of the value's byte image is bounded by the image", ok,
                               f"length `{cast.show(n)}` is not limited to the 64 bits of the source and copyTo does not clamp to size(): "
                               "a length above 64 copies bytes from behind the local into the destination"))
    return out


def rule_clamp(ms) -> typing.Tuple[bool, typing.List[dict]]:
    k = "const_bitspan::copyTo/2"
    if k not in ms:
        raise AnalysisError(f"anchor missing: {k}")
    v = View(k, ms[k])
    ln = [p for p, ty in v.params.items() if "bitspan" not in ty]
    if len(ln) != 1:
        raise AnalysisError("anchor changed: copyTo(dst, length) parameters")
    L = ("ref", ln[0])
    size_call = ("mcall", THIS, "size", ())
    first_access = min([s.top for s, t in v.terms() if any(x[0] == "idx" and "data_" in cast.term_refs(x[1]) for x in cast.subterms(t))
                        or any(m[2] in ("aligned_ref", "aligned_ptr") for m in _mcalls(t))] or [10 ** 6])
    clamp = False
    for s in v.stmts:
        if s.guards or s.node.get("kind") != "IfStmt" or s.top >= first_access:
            continue
        c = cast.term(s.node["inner"][0])
        if c in (("bin", ">", L, size_call), ("bin", "<", size_call, L)):
            body = [t for s2, t in v.terms() if s2.top == s.top and s2.guards and t == ("bin", "=", L, size_call)]
            clamp = clamp or bool(body)
    return clamp, []


def rule_tail(ms) -> typing.List[dict]:
    R = "R-C14-TAIL"
    out = []
    k = "const_bitspan::" + SATM
    if k not in ms:
        raise AnalysisError(f"anchor missing: {k}")
    v = View(k, ms[k])
    ln = ("ref", list(v.params)[0])
    ok, detail = False, "no return"
    for s, t in v.terms():
        if t[0] == "un" and t[1] == "return":
            r_ = cast.substitute(t[2], v.env(s.index))
            # `size()` is the remaining-bits helper of the base class: seen through, and min / tail idioms in one spelling
            r_ = _norm(inline_helpers(r_, ms, keep=PRIMITIVE_METHODS - {"size"}))
            ok, detail = _tail_shape(r_, DATA_SIZE, OFFSET, ln)
    out.append(res(R, k, f"{k}: min(length, size*8 - min(size*8, offset))", ok, detail))
    k = "any_bitspan::size"
    if k not in ms:
        raise AnalysisError(f"anchor missing: {k}")
    v = View(k, ms[k])
    n = 0
    for s, t in v.terms():
        if t[0] == "un" and t[1] == "return" and t[2][0] == "bin" and t[2][1] == "-":
            n += 1
            a, b = t[2][2], t[2][3]
            guarded = False
            for g in v.stmts:
                if g.top < s.top and not g.guards and g.node.get("kind") == "IfStmt":
                    c = cast.term(g.node["inner"][0])
                    r = then_returns(g.node)
                    if r is not None and is_int(r, 0) and c in (("bin", "<", a, b), ("bin", ">", b, a), ("bin", "<=", a, b), ("bin", ">=", b, a)):
                        guarded = True
            out.append(res(R, k, f"{k}: `{cast.show(t[2])}` is returned only after `{cast.show(a)} < {cast.show(b)}` returned 0", guarded,
                           "the subtraction can wrap when the offset is past the end of the data"))
    if n == 0:
        rets = [cast.show(t[2]) for _s, t in v.terms() if t[0] == "un" and t[1] == "return"]
        out.append(res(R, k, f"{k}: remaining-bits computation recognised", False, f"returns {rets}"))
    return out


def rule_subspan_tail(ms) -> typing.List[dict]:
    """R-C14-TAIL (window clause): any_bitspan::subspan() computes the bytes left behind an offset as data_.size() - offset_bytes.  Both
    are unsigned: once the offset has moved past the end (zero extension lets it) the difference wraps to a huge size unless the
    subtraction is taken only where offset_bytes < data_.size() - whatever limit the caller passes is no substitute (the default is
    `no limit`)."""
    R = "R-C14-TAIL"
    out: typing.List[dict] = []
    ks = [k for k in ms if k.startswith("any_bitspan::subspan")]
    if not ks:
        raise AnalysisError("anchor missing: any_bitspan::subspan")
    n = 0
    for k in ks:
        v = View(k, ms[k])

        def is_size(t):
            return "data_.size()" in cast.show(t).replace(" ", "") and t[0] in ("mcall", "call", "mem")

        def walk(t, facts):
            nonlocal n
            if not isinstance(t, tuple) or not t:
                return
            if isinstance(t[0], tuple):          # an argument list
                for y in t:
                    walk(y, facts)
                return
            if t[0] == "cond":
                c = t[1]
                walk(c, facts)
                walk(t[2], facts + [(c, True)])
                walk(t[3], facts + [(c, False)])
                return
            if t[0] == "bin" and t[1] == "-" and is_size(t[2]):
                n += 1
                a, b = t[2], t[3]
                ok = False
                for c, pol in facts:
                    if c[0] == "bin" and pol and ((c[1] in ("<", "<=") and c[2] == b and c[3] == a) or (c[1] in (">", ">=") and c[2] == a and c[3] == b)):
                        ok = True
                    if c[0] == "bin" and not pol and ((c[1] in (">", ">=") and c[2] == b and c[3] == a) or (c[1] in ("<", "<=") and c[2] == a and c[3] == b)):
                        ok = True
                out.append(res(R, k, f"{k}: `{cast.show(t)}` is taken only where the offset lies inside the data", ok,
                               "unsigned subtraction without a guard: for an offset past the end of the data (reached through implicit zero extension) the window's "
                               "size wraps around and a nested object is decoded from memory behind the buffer"))
            for x in t[1:]:
                if isinstance(x, tuple):
                    walk(x, facts)
                elif isinstance(x, (list,)):
                    for y in x:
                        walk(y, facts)

        for s_, t in v.terms():
            gfacts = [(g[1], g[0] == "if") for g in s_.guards if g[0] in ("if", "else")]
            walk(cast.substitute(t, {}), gfacts)
    if n == 0:
        out.append(res(R, ks[0], f"{ks[0]}: remaining-bytes computation recognised", False, "no `data_.size() - <offset>` found"))
    return out


def rule_rmw(ms) -> typing.List[dict]:
    k = "const_bitspan::copyTo/2"
    v = View(k, ms[k])
    ln = [p for p, ty in v.params.items() if "bitspan" not in ty][0]
    # reference locals bound to a byte of the destination (`uint8_t& last_dst = dst.aligned_ref(n);`) are destination lvalues too
    dst_refs = {name for name, (init, ty, _n) in v.defs.items() if init is not None and "&" in ty and "dst" in cast.term_refs(init)}
    return rmw_core("R-C14-RMW", k, v, {"dst"}, set(), lambda t: t == ("ref", ln), None,
                    is_dst_lhs=lambda lhs: (lhs[0] in ("idx", "mcall") and "dst" in cast.term_refs(lhs)) or (lhs[0] == "ref" and lhs[1] in dst_refs))


def rule_byte_order(ms, endian) -> typing.List[dict]:
    R = "R-C14-BYTE-ORDER"
    if endian == "little":
        return []
    out = list(byte_table(R, "bitspan::setUxx", View("bitspan::setUxx", ms["bitspan::setUxx"])))
    for n in ("const_bitspan::getU16", "const_bitspan::getU32", "const_bitspan::getU64"):
        if n not in ms:
            raise AnalysisError(f"anchor missing: {n}")
        out.extend(byte_assembly(R, n, View(n, ms[n])))
    return out


def rule_zero_span(ms) -> typing.List[dict]:
    R = "R-C14-ZERO-SPAN"
    k = "bitspan::setZeros/1"
    if k not in ms:
        raise AnalysisError(f"anchor missing: {k}")
    v = View(k, ms[k])
    length = ("ref", list(v.params)[0])
    out = []
    sets = [(s, c) for s, t in v.terms() for c in _calls(t) if c[1] == "memset" and len(c[2]) == 3]
    if not sets:
        return [res(R, k, f"{k}: memset found", False, "setZeros no longer clears with memset (rule needs re-confirmation)")]
    s, c = sets[0]
    env = v.env(s.index)
    start, cnt = cast.substitute(c[2][0], env), cast.substitute(c[2][2], env)
    first = ("idx", ("ref", "data_"), ("bin", "/", OFFSET, ("int", 8, "")))

    def strip_types(t):
        if t[0] == "int":
            return ("int", t[1], "")
        return tuple(strip_types(x) if isinstance(x, tuple) and x and isinstance(x[0], str) else x for x in t)

    ok = strip_types(start) == ("un", "&", first)
    out.append(res(R, k, f"{k}: memset starts at the byte of the offset", ok, f"starts at `{cast.show(start)}`"))
    mod = ("bin", "%", OFFSET, ("int", 8, ""))
    ok, detail = False, f"byte count `{cast.show(cnt)}` is not (offset_bits_ % 8 + length + 7) / 8"
    sc = strip_types(cnt)
    if sc[0] == "bin" and sc[1] == "/" and is_int(sc[3], 8):
        terms = sorted(map(repr, flat("+", sc[2])))
        ok = terms == sorted(map(repr, [mod, length, ("int", 7, "")]))
        if not ok and sorted(terms) == sorted(map(repr, [length, ("int", 7, "")])):
            detail = (f"byte count `{cast.show(cnt)}` ignores the sub-byte offset: a span that crosses a byte boundary at an unaligned offset leaves "
                      "its last bits uncleared")
    out.append(res(R, k, f"{k}: clears ceil((offset % 8 + length) / 8) bytes", ok, detail))
    # bits below the offset in the first byte are saved before and restored after
    saves = [(s2, name) for s2 in v.stmts for name, _ty, init in cast.decls_of(s2)
             if init is not None and s2.top < s.top and any(strip_types(cast.substitute(x, v.env(s2.index))) == first for x in cast.subterms(init))
             and any(x[0] == "bin" and x[1] == ">>" for x in cast.subterms(init)) and "offset_bits_" in cast.term_refs(cast.substitute(init, v.env(s2.index)))]
    restores = [s2 for s2, t in v.terms() if s2.top > s.top and t[0] == "bin" and t[1] in ("=", "|=") and
                strip_types(cast.substitute(t[2], v.env(s2.index))) == first and saves and saves[0][1] in cast.term_refs(t[3])]
    out.append(res(R, k, f"{k}: bits below the offset are saved before and OR-ed back after the memset", bool(saves and restores),
                   "the first byte's low bits (data written earlier) are not preserved across the memset"))
    return out


def rule_family(ms) -> typing.List[dict]:
    R = "R-C14-FAMILY"
    out = []
    names = [f"const_bitspan::getI{w}" for w in (8, 16, 32, 64)]
    prints = {}
    for n in names:
        if n not in ms:
            raise AnalysisError(f"anchor missing: {n}")
        W = name_width(n)
        prints[n] = alpha_print(ms[n], width=W, callee_map=lambda s, W=W: re.sub(rf"{W}$", "W", s) if s.startswith("getU") else s)
    ref = prints[names[-1]]
    for n in names[:-1]:
        if print_shape(prints[n]) != print_shape(ref):
            out.append(res(R, n, f"{n} is getI64 up to the width", True, ""))   # restructured on its own: not comparable, not decided
            continue
        diff = next((f"statement {i}: `{a}` vs `{b}` in getI64" for i, (a, b) in enumerate(zip(prints[n], ref)) if a != b), None)
        if diff is None and len(prints[n]) != len(ref):
            diff = f"{len(prints[n])} vs {len(ref)} statements"
        out.append(res(R, n, f"{n} is getI64 up to the width", diff is None, diff or ""))
    return out


def rule_shift_width(ms) -> typing.List[dict]:
    R = "R-C14-WIDTH"
    out = []
    for k, fn in ms.items():
        if not re.fullmatch(r"const_bitspan::getI(8|16|32|64)", k):
            continue
        W = name_width(k)
        v = View(k, fn)
        n = 0
        for s, t in v.terms():
            for x in cast.subterms(t):
                if x[0] == "bin" and x[1] == "<<" and x[2][0] == "int" and cast.term_refs(x[3]):
                    n += 1
                    bits = LITERAL_BITS.get(x[2][2])
                    ok = bits is not None and bits >= W
                    out.append(res(R, k, f"{k}: literal shifted by `{cast.show(x[3])}` is wide enough", ok,
                                   f"`{x[2][1]}` has type {x[2][2]} (at least {bits} value bits) but is shifted by up to {W - 1}"))
        if n == 0:
            out.append(res(R, k, f"{k}: sign-extension shifts found", False, "no literal shift found (sign extension rewritten?)"))
    return out


def rule_errprop(ms) -> typing.List[dict]:
    R = "R-C14-ERRPROP"
    out = []
    k = "bitspan::padAndMoveToAlignment"
    if k not in ms:
        raise AnalysisError(f"anchor missing: {k}")
    v = View(k, ms[k])
    zs = [(s, name) for s in v.stmts for name, _ty, init in cast.decls_of(s) if init is not None and any(m[2] == "setZeros" for m in _mcalls(init))]
    adv = [s for s, t in v.terms() if any(m[2] == "add_offset" for m in _mcalls(t))]
    ok, detail = bool(zs and adv), "setZeros result / add_offset not found"
    if ok:
        s0, name = zs[0]
        chk = [s for s in v.stmts if s.node.get("kind") == "IfStmt" and s.index > s0.index and name in cast.term_refs(cast.term(s.node["inner"][0]))
               and (then_returns(s.node) is not None and name in cast.term_refs(then_returns(s.node)))]
        ok = bool(chk) and all(a.index > chk[0].index for a in adv)
        detail = "the offset is advanced although setZeros may have failed (its result is not returned first)"
    else:
        # setZeros called without keeping the result
        if adv and any(m[2] == "setZeros" for _s, t in v.terms() for m in _mcalls(t)):
            detail = "the result of setZeros is discarded"
    out.append(res(R, k, f"{k}: a failed setZeros is returned before add_offset", ok, detail))
    for k, fn in ms.items():
        if re.fullmatch(r"bitspan::set(Ixx|F16|F32|F64)", k):
            v = View(k, fn)
            rets = [t for _s, t in v.terms() if t[0] == "un" and t[1] == "return"]
            ok = bool(rets) and all(any(m[2] == "setUxx" and m[1] == THIS for m in _mcalls(r)) for r in rets)
            out.append(res(R, k, f"{k}: returns the result of setUxx", ok, f"returns `{cast.show(rets[-1][2]) if rets else '-'}`"))
            W = name_width(k)
            if ok and W:
                ln = [m for m in _mcalls(rets[-1]) if m[2] == "setUxx"][0][3][-1]
                ln = cast.substitute(ln, v.env(10 ** 6))
                fields = {f.get("type", {}).get("qualType", "") for f in cast.walk(fn) if f.get("kind") == "FieldDecl"}
                okw = is_int(ln, W) or (ln[0] == "bin" and ln[1] == "*" and any(x[0] == "sizeof" for x in ln[2:]) and any(is_int(x, 8) for x in ln[2:])
                                        and f"uint{W}_t" in fields)
                out.append(res("R-C14-WIDTH", k, f"{k}: stores {W} bits", okw, f"length argument is `{cast.show(ln)}`"))
    return out


def rule_exact_fit(ms) -> typing.List[dict]:
    """a request that fits the buffer exactly is served: the comparisons that return SerializationBufferTooSmall are strict,
    except the single-bit form `size * 8 <= offset` (one more bit is needed)"""
    R = "R-C14-SET-BOUND"
    out = []
    for k, fn in ms.items():
        if not (k.startswith("bitspan::") or k.startswith("any_bitspan::")) or k.startswith("bitspan::bitspan"):
            continue
        v = View(k, fn)
        for s_ in v.stmts:
            if s_.node.get("kind") != "IfStmt":
                continue
            ret = then_returns(s_.node)
            if ret is None or ERR not in cast.term_refs(ret):
                continue
            c = cast.term(s_.node["inner"][0])
            atoms = []

            def split(t):
                if t[0] == "bin" and t[1] in ("||", "&&"):
                    split(t[2])
                    split(t[3])
                else:
                    atoms.append(t)
            split(c)
            bad = []
            for a in atoms:
                if a[0] == "bin" and a[1] in ("<=", ">="):
                    lhs, rhs = (a[2], a[3]) if a[1] == "<=" else (a[3], a[2])
                    single_bit = times8(lhs) == DATA_SIZE and rhs == OFFSET
                    if not single_bit:
                        bad.append(cast.show(a))
            out.append(res(R, k, f"{k}: refusal `{cast.show(c)[:70]}` admits the exact fit", not bad,
                           f"`{bad[0] if bad else ''}` also refuses a request that ends (or starts, for an empty one) exactly at the end of the buffer: "
                           "serialization into a buffer of exactly the advertised size fails"))
    return out


def analyse(objs, text: str, point):
    ms = cast.cpp_methods(objs)
    for need in ("bitspan::setBit", "bitspan::setUxx", "const_bitspan::copyTo/2", "const_bitspan::getU8", "const_bitspan::getBits"):
        if need not in ms:
            raise AnalysisError(f"anchor missing: {need}")
    out = []
    clamp, _ = rule_clamp(ms)
    out += rule_set_bound(ms)
    out += rule_exact_fit(ms)
    out += rule_get(ms, clamp)
    out += rule_copy_source(ms, clamp)
    out += rule_shift_width(ms)
    out += rule_tail(ms)
    out += rule_narrow(ms)
    out += rule_rmw(ms)
    out += rule_subspan_tail(ms)
    out += rule_byte_order(ms, point[0])
    out += rule_zero_span(ms)
    out += rule_family(ms)
    out += rule_errprop(ms)
    for n_, f_ in ms.items():
        out += rule_shift_range(f_, n_)
    prints = {}
    for n in ("float16Pack", "float16Unpack"):
        if n in ms:
            prints[n] = alpha_print(ms[n])
    if "float16Unpack" in ms:
        out += rule_f16_special(ms["float16Unpack"], "float16Unpack")
    if "float16Pack" in ms:
        out += rule_f16_pack_order(ms["float16Pack"], "float16Pack")
    return out, prints, len(ms)


# ---- narrowing of size-derived quantities ---------------------------------------------------------------------------------------
NARROW_BITS = {"uint8_t": 8, "unsigned char": 8, "std::uint8_t": 8, "uint16_t": 16, "std::uint16_t": 16, "unsigned short": 16}


def rule_narrow(ms) -> typing.List[dict]:
    """R-C14-TAIL (narrowing clause): the number of bits left in the buffer is a size_t quantity.  An explicit cast of a value derived
    from it (size(), data_.size(), the offset, the saturation helper applied to an unbounded length) to an 8- or 16-bit type is
    lossless only when the operand is already bounded by a constant that fits; otherwise the count is taken modulo 2**8 / 2**16 and
    reads of large buffers return zeros for bits that are present."""
    R = "R-C14-TAIL"
    out = []
    sat = {SATM}
    n_casts = 0
    for k, fn in ms.items():
        if not (k.startswith("const_bitspan::") or k.startswith("bitspan::") or k.startswith("any_bitspan::")):
            continue
        v = View(k, fn)

        def visit(n):
            nonlocal n_casts
            if not isinstance(n, dict):
                return
            kind = n.get("kind")
            if kind in ("CXXStaticCastExpr", "CStyleCastExpr", "CXXFunctionalCastExpr"):
                ty = (n.get("type") or {}).get("qualType", "").replace("const ", "")
                bits = NARROW_BITS.get(ty)
                inner = n.get("inner") or []
                if bits is not None and inner:
                    t = _norm(inline_helpers(cast.term(inner[-1]), ms, keep=PRIMITIVE_METHODS))
                    shown = cast.show(t)
                    size_derived = any(x in shown for x in ("size()", SATM))      # bits / bytes left in the buffer (not offset % n, which is bounded by n)
                    if size_derived:
                        n_casts += 1
                        ub = upper_bound(t, v.params, sat)
                        ok = ub is not None and ub < (1 << bits)
                        out.append(res(R, k, f"{k}: `static_cast<{ty}>({shown[:60]})` narrows a value that is already bounded", ok,
                                       f"the operand is a buffer-size quantity without a visible bound below 2**{bits}: for buffers with 2**{bits} or more bits left the "
                                       "count wraps and bits that are present are read as zero"))
            for c in n.get("inner") or []:
                visit(c)
        visit(fn)
    if n_casts == 0:
        out.append(res(R, "const_bitspan", "no buffer-size quantity is narrowed to an 8/16-bit type", True, ""))
    return out
