#!/bin/sh
# usage: agent_prompt_benign.sh Cxx  -> brief for an agent that delivers THREE behaviour-preserving refactorings only (no breaking changes):
# the environment and property header of agent_prompt.sh, the earlier refactorings of the property named as done, a bolder task.
P=$1
DONE=$(/venv/bin/python - "$P" <<'PY'
import json,glob,sys,re
P=sys.argv[1]
out=[]
for mp in sorted(glob.glob(f'/verif/seeded/benign/{P}-b*/meta.json')):
    m=json.load(open(mp))
    out.append("- "+re.sub(r'\s+',' ',m.get('summary') or '')[:260])
print("\n".join(out))
PY
)
sh /verif/tools/agent_prompt.sh "$P" | /venv/bin/python -c '
import sys
s=sys.stdin.read()
done=sys.argv[1]; P=sys.argv[2]
head=s.split("Earlier rounds already produced these breaking changes")[0] if "Earlier rounds already produced" in s else s.split("YOUR TASK")[0]
wt=f"/tmp/wt-{P}"
task=f"""Earlier rounds already produced these behaviour-preserving refactorings around this property; do NOT repeat them - pick other functions, templates, macros or configuration, or restructure the same ones in a clearly different way:
{done}

YOUR TASK: THREE BEHAVIOUR-PRESERVING REFACTORINGS (no breaking change is wanted this time). Create the directory {wt}/seed_out first; it must contain only your outputs.
Produce three independent, realistic changes j in {{1,2,3}} to the area of the code base this property is about (the functions, templates, macros or configuration that implement it) that do NOT change behaviour at all: the kind of restructuring a maintainer commits after review. Be bold - restructure, do not merely rename. Each of the three should use a DIFFERENT kind of restructuring, for example: split a long function into private helpers (also helpers that return values, take the work list as a parameter, or are generators) or merge helpers back; move a helper to another module of the package; turn an if/elif ladder into a table or a loop over a table, or the reverse; early returns instead of nested else; a loop into a comprehension / generator / any()/all()/next(), or the reverse; hoist repeated expressions or conditions into named locals (also in templates with set); extract or merge Jinja macros, pass context as macro parameters, use call blocks or filters differently but equivalently; change a data representation (list vs tuple vs dict, class constant vs module constant, f-string vs format vs concatenation); replace try/except KeyError by an `in` test or .get(); rewrite conditions into equivalent forms (De Morgan, mirrored comparisons, chained comparisons). Each must touch at least ~10 lines of real code and MUST keep the property true for every input - when in doubt about equivalence in a corner case, do not make that change.
For each j:
 1. From a clean worktree (git -C {wt} checkout -- . && git -C {wt} clean -fdq -e seed_out) make the change and save it: git -C {wt} diff > {wt}/seed_out/benign$j.diff
 2. Verify that the test suite still passes the same 415 tests. If the property is about generated output, generate output for a small but varied namespace with and without the refactoring (all relevant target languages and options) and confirm the outputs are byte-identical; otherwise compare the results of the refactored functions with the original ones over a varied set of inputs (differential check).
 3. Write {wt}/seed_out/benignmeta$j.json with keys: "property" ("{P}"), "summary" (what was refactored), "files", "why_equivalent" (one or two sentences), "commands_run" (list).
When everything is done, restore the worktree to clean (git checkout -- . ; leave seed_out in place) and reply with a short summary of the three changes. Do not commit anything. If you cannot find a qualifying change for some slot after a reasonable effort, deliver what you have and say so.
"""
sys.stdout.write(head+task)
' "$DONE" "$P"
