#!/venv/bin/python
"""
Re-run the static checks against every recorded seeded change (/verif/seeded/<id>/patch.diff) applied to a scratch
worktree of /repo's HEAD, and refresh `checks_fired` / `caught_by_own_property_check` in its meta.json.
  tools/recheck_seeds.py [id ...] [--demo]      (--demo also re-runs the demonstration on both trees)
Prints a table; exits 1 if some confirmed seed is not caught by any check of its own property.
"""
import json
import os
import pathlib
import shutil
import subprocess
import sys
import tempfile
from concurrent.futures import ThreadPoolExecutor

VERIF = pathlib.Path(__file__).resolve().parent.parent
REPO = pathlib.Path("/repo")


def sh(cmd, **kw):
    return subprocess.run(cmd, capture_output=True, text=True, **kw)


def one(sid, demo=False):
    d = VERIF / "seeded" / sid
    meta = json.loads((d / "meta.json").read_text())
    wt = pathlib.Path(tempfile.mkdtemp(prefix="nvsa-rs-"))
    shutil.rmtree(wt)
    try:
        r = sh(["git", "-C", str(REPO), "worktree", "add", "-q", "--detach", str(wt), "HEAD"])
        if r.returncode:
            return sid, meta, "worktree failed"
        r = sh(["git", "-C", str(wt), "apply", "--3way", str(d / "patch.diff")])
        if r.returncode:
            r = sh(["git", "-C", str(wt), "apply", str(d / "patch.diff")])
        if r.returncode:
            meta["patch_applies"] = False
            (d / "meta.json").write_text(json.dumps(meta, indent=1) + "\n")
            return sid, meta, "patch does not apply to HEAD"
        meta["patch_applies"] = True
        if demo:
            dm = [p for p in d.glob("demo.*")][0]
            for label, src in (("demo_on_clean_tree", REPO / "src"), ("demo_on_patched_tree", wt / "src")):
                env = dict(os.environ, NUNAVUT_SRC=str(src), PYTHONPATH=str(src))
                rr = sh((["/venv/bin/python"] if dm.suffix == ".py" else ["sh"]) + [str(dm)], env=env, timeout=900)
                meta[label] = {"exit": rr.returncode}
        have = sorted(p.stem for p in (VERIF / "checks").glob("C*.py"))
        c = sh(["/venv/bin/python", str(VERIF / "check")] + have + ["--tier", "quick", "--root", str(wt), "--evidence-dir", str(wt / "ev")], timeout=1800)
        fired = {}
        for ln in c.stdout.splitlines():
            if "violated:" in ln:
                rule = ln.split("[", 1)[1].split("]", 1)[0]
                fired.setdefault(rule, []).append(ln.split("]", 1)[1].strip()[:200])
            if "ANALYSIS-ERROR" in ln:
                fired.setdefault("ANALYSIS-ERROR", []).append(ln[:200])
        meta["checks_fired"] = fired
        meta["checks_run"] = have
        prop = meta.get("property")
        meta["caught_by_own_property_check"] = any(r.startswith(f"R-{prop}-") for r in fired)
        (d / "meta.json").write_text(json.dumps(meta, indent=1) + "\n")
        return sid, meta, ""
    finally:
        sh(["git", "-C", str(REPO), "worktree", "remove", "--force", str(wt)])
        shutil.rmtree(wt, ignore_errors=True)


def main():
    args = [a for a in sys.argv[1:] if not a.startswith("--")]
    demo = "--demo" in sys.argv
    ids = args or sorted(p.name for p in (VERIF / "seeded").iterdir() if (p / "patch.diff").exists())
    bad = 0
    with ThreadPoolExecutor(max_workers=8) as ex:
        for sid, meta, err in ex.map(lambda s: one(s, demo), ids):
            fired = meta.get("checks_fired", {})
            own = meta.get("caught_by_own_property_check")
            print(f"{sid:10s} prop={meta.get('property')} confirmed={meta.get('confirmed')} own={own} fired={ {k: len(v) for k, v in fired.items()} } {err}")
            if meta.get("confirmed") and not fired:
                bad += 1
    return 1 if bad else 0


if __name__ == "__main__":
    sys.exit(main())
