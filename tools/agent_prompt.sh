#!/bin/sh
# usage: agent_prompt2.sh Cxx  -> round-3 prompt: 2 breaking changes at new sites + 2 behaviour-preserving refactorings
P=$1
AVOID=$(/venv/bin/python - "$P" <<'EOF'
import json,glob,sys,re
P=sys.argv[1]
out=[]
for mp in sorted(glob.glob(f'/verif/seeded/{P}-s*/meta.json')):
    m=json.load(open(mp))
    out.append("- "+re.sub(r'\s+',' ',m.get('summary',''))[:300])
print("\n".join(out))
EOF
)
cat <<EOT
You are helping to evaluate a verification effort for the open-source project OpenCyphal/nunavut (a DSDL-to-C/C++/Python/HTML transpiler built on Jinja2 templates). You have your own scratch git worktree of the repository at /tmp/wt-$P . Work ONLY inside /tmp/wt-$P (never touch /repo or /verif, and do not read anything under /verif). Do NOT use git stash (the stash is shared between all worktrees of the repository and other agents are working in parallel): save your diffs to files and use git apply / git checkout -- . instead. Never run anything with NUNAVUT_SRC or PYTHONPATH pointing at /repo/src: to run a demonstration on the unmodified tree, use your own worktree in its clean state. There is no network. Python is /venv/bin/python (has pydsdl, PyYAML, pytest; no numpy). IMPORTANT: the venv has nunavut installed in editable mode pointing at /repo/src, so whenever you run Python or pytest against your worktree you MUST prefix the command with PYTHONPATH=/tmp/wt-$P/src so that your modified sources are the ones imported, e.g.
  cd /tmp/wt-$P && PYTHONPATH=/tmp/wt-$P/src /venv/bin/python -m pytest -q -p no:cacheprovider --timeout=900 --continue-on-collection-errors
(takes ~15 s. On the unmodified tree this gives exactly "63 failed, 415 passed": the 63 failures are pre-existing, offline-sandbox failures and are expected. "Passing the existing tests" below means: the same 415 tests still pass and nothing that passed before fails; doctest ids contain line numbers, so compare by file, not by line, if you shift lines.) The CLI can be run as: PYTHONPATH=/tmp/wt-$P/src /venv/bin/python -m nunavut <args>. gcc/g++/clang are installed if you want to compile generated C/C++.

Here is a semantic property that the project is supposed to satisfy:

$(cat /tmp/prop-$P.txt)

Earlier rounds already produced these breaking changes for this property; do NOT repeat them or small variations of them, and prefer different files / functions / macros / mechanisms:
$AVOID

YOUR TASK has two parts. Create the directory /tmp/wt-$P/seed_out first; it must contain only your outputs.

PART A - TWO NEW BREAKING CHANGES. Produce two independent, realistic source changes to OpenCyphal/nunavut (under src/nunavut: Python code, Jinja templates *.j2, or properties.yaml), each of which BREAKS this property while the package still imports, the templates still parse, and the existing test suite still passes as described above. Each change should look like something a maintainer could plausibly commit (a refactoring slip, an "optimisation", a mis-merged condition, a dropped argument, a reordered statement, an off-by-one), not sabotage with an obvious marker. Prefer changes that need something specific to manifest (a particular unusual input, option combination, multi-step history, chunking/ordering, or two cooperating sites that each look fine alone). For EACH change i in {1,2}:
 1. Start from a clean worktree (git -C /tmp/wt-$P checkout -- . && git -C /tmp/wt-$P clean -fdq -e seed_out), make the change, save it: git -C /tmp/wt-$P diff > /tmp/wt-$P/seed_out/patch\$i.diff
 2. Write a self-contained demonstration /tmp/wt-$P/seed_out/demo\$i.py (or demo\$i.sh) that exits 0 when the property holds for the scenario it exercises and non-zero (with a short message) when it is violated. It must take the source root from the environment variable NUNAVUT_SRC (insert os.environ["NUNAVUT_SRC"] at the front of sys.path and/or pass it as PYTHONPATH to subprocesses) so it can run against either tree; it must use temporary directories and clean them up. It must PASS on the unmodified tree and FAIL with your change applied - verify both.
 3. Run the full test suite with the change applied and confirm the same 415 tests pass.
 4. Write /tmp/wt-$P/seed_out/meta\$i.json with keys: "property" ("$P"), "summary" (one sentence: what was changed), "files" (list), "needs_to_manifest", "why_tests_pass", "commands_run" (list), "test_result" (the pytest summary line observed).

PART B - TWO BEHAVIOUR-PRESERVING REFACTORINGS. Produce two independent, realistic changes j in {1,2} to the SAME AREA of the code base that this property is about (the functions, templates, macros or configuration that implement it - ideally close to where breaking changes could be made) that do NOT change behaviour at all: the kind of clean-up a maintainer commits without a second thought. Examples: rename local variables or template-local variables; extract a helper function or macro and call it; inline a helper; reorder independent statements; rewrite a condition into an equivalent form (a > b as b < a, De Morgan, early return instead of else, if/elif into a lookup that is provably equivalent); hoist a repeated sub-expression into a named local; replace .format by an f-string; split a long function; change comments or formatting. Each must be non-trivial (touch at least ~5 lines of real code, not only comments) and MUST keep the property true for every input. For each:
 1. From a clean worktree make the change and save it: git -C /tmp/wt-$P diff > /tmp/wt-$P/seed_out/benign\$j.diff
 2. Verify that the test suite still passes the same 415 tests AND that BOTH of your demonstrations demo1/demo2 from part A still exit 0 with only this refactoring applied (NUNAVUT_SRC=/tmp/wt-$P/src). If the property is about generated output, additionally generate output for a small but varied namespace with and without the refactoring (all relevant target languages/options) and confirm the outputs are byte-identical.
 3. Write /tmp/wt-$P/seed_out/benignmeta\$j.json with keys: "property" ("$P"), "summary" (what was refactored), "files", "why_equivalent" (one or two sentences), "commands_run" (list).
When everything is done, restore the worktree to clean (git checkout -- . ; leave seed_out in place) and reply with a short summary of the four changes. Do not commit anything. If you cannot find a qualifying change for some slot after a reasonable effort, deliver what you have and say so.
EOT
