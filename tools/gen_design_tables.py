#!/venv/bin/python
"""
Regenerate the two tables of DESIGN.md section 7.5 from the recorded meta files:
  <!-- SEEDS:BEGIN --> ... <!-- SEEDS:END -->      seeded breaking changes, with the rules that fire on each
  <!-- BENIGN:BEGIN --> ... <!-- BENIGN:END -->    behaviour-preserving refactorings, with the alarms (must be none)
Run tools/recheck_seeds.py and tools/recheck_benign.py first: they refresh the meta files against /repo's HEAD.
"""
import json
import pathlib
import re
import sys

VERIF = pathlib.Path(__file__).resolve().parent.parent


def cell(s, n):
    s = re.sub(r"\s+", " ", s or "").replace("|", "\\|")
    return s if len(s) <= n else s[: n - 3].rstrip() + "..."


def seeds_table():
    rows = ["| Seed | Change | Rules that fire |", "|---|---|---|"]
    n = own = 0
    for d in sorted((VERIF / "seeded").iterdir()):
        mp = d / "meta.json"
        if d.name == "benign" or not mp.exists():
            continue
        m = json.loads(mp.read_text())
        fired = m.get("checks_fired") or {}
        n += 1
        own += bool(m.get("caught_by_own_property_check"))
        rules = ", ".join(f"{k.replace('R-', '')}" + (f" x{len(v)}" if len(v) > 1 else "") for k, v in sorted(fired.items())) or "**none**"
        rows.append(f"| {d.name} | {cell(m.get('summary'), 230)} | {rules} |")
    return "\n".join(rows), n, own


def benign_table():
    rows = ["| Refactoring | What was rewritten | Alarms |", "|---|---|---|"]
    n = 0
    for d in sorted((VERIF / "seeded" / "benign").iterdir()):
        mp = d / "meta.json"
        if not mp.exists():
            continue
        m = json.loads(mp.read_text())
        n += 1
        al = m.get("alarms") or {}
        rows.append(f"| {d.name} | {cell(m.get('summary'), 230)} | {', '.join(sorted(al)) if al else 'none'} |")
    return "\n".join(rows), n


def main():
    p = VERIF / "DESIGN.md"
    s = p.read_text()
    st, n, own = seeds_table()
    bt, nb = benign_table()
    for tag, body in (("SEEDS", st), ("BENIGN", bt)):
        a, b = f"<!-- {tag}:BEGIN -->", f"<!-- {tag}:END -->"
        if a not in s or b not in s:
            print(f"marker {tag} missing in DESIGN.md")
            return 2
        s = s[: s.index(a) + len(a)] + "\n" + body + "\n" + s[s.index(b):]
    p.write_text(s)
    print(f"{n} seeds ({own} caught by the aimed-at property's own check), {nb} refactorings")
    return 0


if __name__ == "__main__":
    sys.exit(main())
