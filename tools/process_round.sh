#!/bin/sh
# usage: tools/process_round.sh Cxx <first seed index> <first benign index>
# verifies <wt>/seed_out/{patch,demo,meta}{1,2} and benign{1,2} of a seeding agent and records them under /verif/seeded
P=$1; S=$2; B=$3
D=/tmp/wt-$P/seed_out
cd /verif
/venv/bin/python tools/verify_seed.py $D 1 $P-s$S 2>&1 | grep -v '^WARNING'
/venv/bin/python tools/verify_seed.py $D 2 $P-s$((S+1)) 2>&1 | grep -v '^WARNING'
/venv/bin/python tools/verify_benign.py $D 1 $P-b$B 2>&1 | grep -v '^WARNING'
/venv/bin/python tools/verify_benign.py $D 2 $P-b$((B+1)) 2>&1 | grep -v '^WARNING'
