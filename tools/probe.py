#!/venv/bin/python
"""ad hoc mutation probe: (file, old, new, props) on a scratch worktree"""
import subprocess, sys, pathlib, tempfile, json, shutil
M = json.load(open(sys.argv[1]))
wt = pathlib.Path(tempfile.mkdtemp(prefix="nvsa-probe-")); wt.rmdir()
ev = tempfile.mkdtemp(prefix="nvsa-probe-ev-")
subprocess.run(["git","-C","/repo","worktree","add","-q","--detach",str(wt),"HEAD"],check=True)
try:
    for i,(rel,old,new,props) in enumerate(M):
        p = wt/rel; s = p.read_text()
        if s.count(old) != 1:
            print(f"#{i} SETUP count={s.count(old)} {old[:50]!r}"); continue
        p.write_text(s.replace(old,new))
        r = subprocess.run(["/verif/check",*props,"--root",str(wt),"--evidence-dir",ev],capture_output=True,text=True)
        fired = sorted({l.split("]")[0].split("[")[1] for l in r.stdout.splitlines() if "violated:" in l})
        err = [l for l in r.stdout.splitlines() if "ANALYSIS-ERROR" in l][:1]
        print(f"#{i} {'FIRED ' if fired else ('ERROR ' if err else 'MISSED')} {fired or err} :: {rel.split('/')[-1]} :: {new[:70]!r}")
        p.write_text(s)
finally:
    subprocess.run(["git","-C","/repo","worktree","remove","--force",str(wt)])
    shutil.rmtree(ev, ignore_errors=True)
