#!/venv/bin/python
"""
Second behaviour-preserving control: rewrite every non-vendored Python module of src/nunavut into an equivalent form
  * binary comparisons with one ordering operator are mirrored (a > b  ->  b < a); == / != / is / is not keep their form
    but swap operands when both sides are free of calls (evaluation order is not observable then)
  * `if c: A else: B` (no elif) is inverted to `if not c: B else: A`
  * the module is re-emitted with ast.unparse (layout, comments and line numbers change; docstrings are kept)
The checks must stay silent on the result with the same number of rule instances.

usage: equiv_rewrite.py <dest-root> [--keep-tree]
"""
import ast
import os
import pathlib
import shutil
import sys

REPO = pathlib.Path(os.environ.get("NVSA_SRC_ROOT", "/repo"))
MIRROR = {ast.Lt: ast.Gt, ast.Gt: ast.Lt, ast.LtE: ast.GtE, ast.GtE: ast.LtE}


def _pure(e) -> bool:
    return not any(isinstance(x, (ast.Call, ast.Await, ast.Yield, ast.YieldFrom, ast.NamedExpr, ast.Subscript)) for x in ast.walk(e))


class Rewriter(ast.NodeTransformer):
    def __init__(self):
        self.n_cmp = 0
        self.n_if = 0

    def visit_Compare(self, node):
        self.generic_visit(node)
        if len(node.ops) == 1 and _pure(node.left) and _pure(node.comparators[0]):
            op = node.ops[0]
            if type(op) in MIRROR:
                self.n_cmp += 1
                return ast.copy_location(ast.Compare(left=node.comparators[0], ops=[MIRROR[type(op)]()], comparators=[node.left]), node)
            if isinstance(op, (ast.Eq, ast.NotEq)) and not (isinstance(node.comparators[0], ast.Constant) and node.comparators[0].value is None):
                self.n_cmp += 1
                return ast.copy_location(ast.Compare(left=node.comparators[0], ops=[op], comparators=[node.left]), node)
        return node

    def visit_If(self, node):
        self.generic_visit(node)
        if node.orelse and not (len(node.orelse) == 1 and isinstance(node.orelse[0], ast.If)):
            # do not invert when a branch binds names used for typing narrowing only... (no semantic effect at run time)
            self.n_if += 1
            test = node.test
            neg = test.operand if isinstance(test, ast.UnaryOp) and isinstance(test.op, ast.Not) else ast.UnaryOp(op=ast.Not(), operand=test)
            return ast.copy_location(ast.If(test=neg, body=node.orelse, orelse=node.body), node)
        return node


def main(dest: str, keep: bool) -> int:
    target = pathlib.Path(dest) / "src" / "nunavut"
    if not keep or not target.exists():
        if target.exists():
            shutil.rmtree(target)
        target.parent.mkdir(parents=True, exist_ok=True)
        shutil.copytree(REPO / "src" / "nunavut", target, ignore=shutil.ignore_patterns("__pycache__"))
    n_files = n_cmp = n_if = 0
    for p in sorted(target.rglob("*.py")):
        rel = p.relative_to(target).as_posix()
        if rel.startswith("jinja/jinja2/") or rel.startswith("jinja/markupsafe/"):
            continue
        src = p.read_text(encoding="utf-8")
        tree = ast.parse(src)
        rw = Rewriter()
        tree = rw.visit(tree)
        ast.fix_missing_locations(tree)
        new = ast.unparse(tree) + "\n"
        compile(new, str(p), "exec")
        p.write_text(new, encoding="utf-8")
        n_files += 1
        n_cmp += rw.n_cmp
        n_if += rw.n_if
    print(f"equiv-rewrote {n_files} modules under {target}: {n_cmp} comparisons mirrored, {n_if} if/else inverted")
    return 0


if __name__ == "__main__":
    sys.exit(main(sys.argv[1], "--keep-tree" in sys.argv))
