#!/bin/sh
# usage: tools/process_benign3.sh Cxx <first benign idx>   -> verifies <wt>/seed_out/benign{1,2,3}.diff of a refactoring-only agent
P=$1; B=$2
D=/tmp/wt-$P/seed_out
cd /verif
for j in 1 2 3; do
  [ -f $D/benign$j.diff ] && /venv/bin/python tools/verify_benign.py $D $j $P-b$((B+j-1)) 2>&1 | grep -v '^WARNING'
done
