#!/venv/bin/python
"""
Robustness control for the template checks: write a copy of src/nunavut in which every template-local variable
(`{% set x = ... %}` / `{% set x %}...{% endset %}` targets and `{% for x in ... %}` targets) of every built-in template
is renamed consistently within its file (behaviour-preserving); macro parameters are renamed as well where that is safe.  All checks must stay silent on the result.

usage: alpha_rename_j2.py <dest-root> [--keep-tree]     (creates / updates <dest-root>/src/nunavut)
"""
import os
import pathlib
import shutil
import sys

VERIF = pathlib.Path(__file__).resolve().parent.parent
sys.path.insert(0, str(VERIF))
REPO = pathlib.Path(os.environ.get("NVSA_SRC_ROOT", "/repo"))


def rename_template(env, N, source: str, name: str, other_templates_text: str = ""):
    ast = env.parse(source)
    targets = set()
    banned = set()
    for n in ast.find_all((N.Assign, N.AssignBlock)):
        for x in [n.target] if isinstance(n.target, N.Name) else list(n.target.find_all(N.Name)):
            targets.add(x.name)
    for n in ast.find_all(N.For):
        for x in [n.target] if isinstance(n.target, N.Name) else list(n.target.find_all(N.Name)):
            targets.add(x.name)
    private_macros = {m.name for m in ast.find_all(N.Macro) if m.name.startswith("_")}
    for m in ast.find_all(N.Macro):
        if m.name not in private_macros:
            banned.add(m.name)
    # macro parameters: renamed too, when every occurrence of the name in the file lies inside a macro that has it as a parameter
    # or binds it locally (calls pass them by position; a name that is also passed as a keyword is banned below)
    params = {a.name for m in ast.find_all(N.Macro) for a in m.args}
    inside = {}
    for m in ast.find_all(N.Macro):
        bound = {a.name for a in m.args}
        for n in m.find_all((N.Assign, N.AssignBlock, N.For)):
            for x in [n.target] if isinstance(n.target, N.Name) else list(n.target.find_all(N.Name)):
                bound.add(x.name)
        for x in m.find_all(N.Name):
            if x.name in bound:
                inside[id(x)] = True
        for a in m.args:
            inside[id(a)] = True
    for x in ast.find_all(N.Name):
        if x.name in params and id(x) not in inside:
            banned.add(x.name)        # also used where no macro binds it
    targets |= params
    for n in ast.find_all((N.Import, N.FromImport)):
        if isinstance(n, N.Import):
            banned.add(n.target)
        else:
            for nm in n.names:
                banned.add(nm[1] if isinstance(nm, tuple) else nm)
    for n in ast.find_all(N.Keyword):
        banned.add(n.key)
    for n in ast.find_all(N.Getattr):
        banned.add(n.attr)
    for n in ast.find_all((N.Filter, N.Test)):
        banned.add(n.name)
    # names bound outside a macro are template-level (importable from other templates): keep those
    in_macro = set()
    for m in ast.find_all(N.Macro):
        for n in m.find_all((N.Assign, N.AssignBlock, N.For)):
            in_macro.add(id(n))
    for n in ast.find_all((N.Assign, N.AssignBlock)):     # loop variables are never exported: renamed everywhere
        if id(n) not in in_macro:
            for x in [n.target] if isinstance(n.target, N.Name) else list(n.target.find_all(N.Name)):
                banned.add(x.name)
    banned |= {"loop", "self", "varargs", "kwargs", "caller", "T", "options", "true", "false", "none", "True", "False", "None"}
    names = {t for t in targets - banned if not t.startswith("_")}
    # private macros (never imported by another template) are renamed as well: definition and call sites
    names |= {m for m in private_macros - banned if m not in other_templates_text}
    if not names:
        return source, 0
    out = []
    prev = None
    in_code = False
    count = 0
    for lineno, tok, value in env.lexer.tokeniter(source, name):
        if tok in ("block_begin", "variable_begin"):
            in_code = True
        elif tok in ("block_end", "variable_end"):
            in_code = False
        if in_code and tok == "name" and value in names and prev not in (".", "|", "is"):
            value = value + "_zq"
            count += 1
        if tok not in ("whitespace",):
            prev = value if tok in ("operator", "name") else None
            if tok == "operator" and value not in (".", "|"):
                prev = None
        out.append(value)
    return "".join(out), count


def main(dest: str, keep: bool) -> int:
    from nvsa import j2front

    dest_root = pathlib.Path(dest)
    target = dest_root / "src" / "nunavut"
    if not keep or not target.exists():
        if target.exists():
            shutil.rmtree(target)
        target.parent.mkdir(parents=True, exist_ok=True)
        shutil.copytree(REPO / "src" / "nunavut", target, ignore=shutil.ignore_patterns("__pycache__"))
    b = j2front.load_bundle(REPO)
    env = j2front.make_env(b)
    n_files = n_changed = n_tokens = 0
    for p in sorted((target / "lang").rglob("*.j2")):
        n_files += 1
        src = p.read_text(encoding="utf-8")
        try:
            others = "\n".join(q.read_text(encoding="utf-8") for q in p.parent.glob("*.j2") if q != p)
            new, cnt = rename_template(env, b.nodes, src, p.name, others)
            if cnt:
                env.parse(new)
        except Exception as e:
            print(f"skip {p.relative_to(target)}: {type(e).__name__}: {e}")
            continue
        if cnt:
            p.write_text(new, encoding="utf-8")
            n_changed += 1
            n_tokens += cnt
    print(f"alpha-renamed {n_tokens} tokens in {n_changed}/{n_files} templates under {target}")
    return 0


if __name__ == "__main__":
    sys.exit(main(sys.argv[1], "--keep-tree" in sys.argv))
