#!/venv/bin/python
"""
Re-run the static checks against every recorded behaviour-preserving refactoring (/verif/seeded/benign/<id>/patch.diff)
applied to a scratch worktree of /repo's HEAD.  Every check must stay silent; the alarms (if any) are written back to the
refactoring's meta.json.
  tools/recheck_benign.py [id ...]
Exits 1 if some refactoring raises an alarm.
"""
import json
import pathlib
import shutil
import subprocess
import sys
import tempfile
from concurrent.futures import ThreadPoolExecutor

VERIF = pathlib.Path(__file__).resolve().parent.parent
REPO = pathlib.Path("/repo")


def sh(cmd, **kw):
    return subprocess.run(cmd, capture_output=True, text=True, **kw)


def one(sid):
    d = VERIF / "seeded" / "benign" / sid
    meta = json.loads((d / "meta.json").read_text())
    wt = pathlib.Path(tempfile.mkdtemp(prefix="nvsa-rb-"))
    shutil.rmtree(wt)
    try:
        r = sh(["git", "-C", str(REPO), "worktree", "add", "-q", "--detach", str(wt), "HEAD"])
        if r.returncode:
            return sid, None, "worktree failed"
        r = sh(["git", "-C", str(wt), "apply", "--3way", str(d / "patch.diff")])
        if r.returncode:
            r = sh(["git", "-C", str(wt), "apply", str(d / "patch.diff")])
        if r.returncode:
            meta["patch_applies"] = False
            (d / "meta.json").write_text(json.dumps(meta, indent=1) + "\n")
            return sid, None, "patch does not apply to HEAD"
        have = sorted(p.stem for p in (VERIF / "checks").glob("C[0-9][0-9].py"))
        c = sh(["/venv/bin/python", str(VERIF / "check")] + have + ["--tier", "quick", "--root", str(wt), "--evidence-dir", str(wt / "ev")], timeout=1800)
        alarms = {}
        for ln in c.stdout.splitlines():
            if "violated:" in ln:
                rule = ln.split("[", 1)[1].split("]", 1)[0]
                alarms.setdefault(rule, []).append(ln.split("]", 1)[1].strip()[:240])
            if "ANALYSIS-ERROR" in ln:
                alarms.setdefault("ANALYSIS-ERROR", []).append(ln[:240])
        meta["alarms"] = alarms
        meta["patch_applies"] = True
        (d / "meta.json").write_text(json.dumps(meta, indent=1) + "\n")
        return sid, alarms, ""
    finally:
        sh(["git", "-C", str(REPO), "worktree", "remove", "--force", str(wt)])
        shutil.rmtree(wt, ignore_errors=True)


def main():
    ids = [a for a in sys.argv[1:] if not a.startswith("--")] or sorted(p.name for p in (VERIF / "seeded" / "benign").iterdir() if (p / "patch.diff").exists())
    bad = 0
    with ThreadPoolExecutor(max_workers=6) as ex:
        for sid, alarms, err in ex.map(one, ids):
            if err:
                print(f"{sid:10s} {err}")
                bad += 1
            elif alarms:
                bad += 1
                print(f"{sid:10s} ALARM { {k: len(v) for k, v in alarms.items()} }")
                for k, v in alarms.items():
                    print(f"             {k}: {v[0][:200]}")
            else:
                print(f"{sid:10s} silent")
    return 1 if bad else 0


if __name__ == "__main__":
    sys.exit(main())
