#!/venv/bin/python
"""
Robustness control for the checks: write a copy of src/nunavut in which every local variable of every function of the
non-vendored Python modules is renamed (behaviour-preserving alpha-renaming).  All checks must stay silent on it.

usage: alpha_rename.py <dest-root>        (creates <dest-root>/src/nunavut)
"""
import ast
import io
import keyword
import os
import pathlib
import shutil
import sys
import tokenize

REPO = pathlib.Path(os.environ.get("NVSA_SRC_ROOT", "/repo"))


def local_names(fn: ast.AST):
    """names bound inside fn (assignment / for / with / comprehension / except targets), minus parameters and declared globals"""
    params = set()
    a = fn.args
    for x in a.posonlyargs + a.args + a.kwonlyargs:
        params.add(x.arg)
    if a.vararg:
        params.add(a.vararg.arg)
    if a.kwarg:
        params.add(a.kwarg.arg)
    bound, banned = set(), set()
    for n in ast.walk(fn):
        if isinstance(n, ast.Name) and isinstance(n.ctx, (ast.Store, ast.Del)):
            bound.add(n.id)
        elif isinstance(n, (ast.Global, ast.Nonlocal)):
            banned |= set(n.names)
        elif isinstance(n, ast.keyword) and n.arg:
            banned.add(n.arg)
        elif isinstance(n, ast.Attribute):
            banned.add(n.attr)
        elif isinstance(n, (ast.FunctionDef, ast.AsyncFunctionDef, ast.ClassDef)) and n is not fn:
            banned.add(n.name)
            if not isinstance(n, ast.ClassDef):
                aa = n.args
                for x in aa.posonlyargs + aa.args + aa.kwonlyargs:
                    banned.add(x.arg)
                if aa.vararg:
                    banned.add(aa.vararg.arg)
                if aa.kwarg:
                    banned.add(aa.kwarg.arg)
        elif isinstance(n, ast.ExceptHandler) and n.name:
            banned.add(n.name)   # `except E as name` is a plain NAME token too, but deletion semantics make it special
        elif isinstance(n, (ast.Import, ast.ImportFrom)):
            for al in n.names:
                banned.add((al.asname or al.name).split(".")[0])
        elif isinstance(n, ast.Constant) and isinstance(n.value, str) and n.value.isidentifier():
            banned.add(n.value)   # getattr/locals()-style string references
    names = {b for b in bound - params - banned if not b.startswith("__") and b != "_" and not keyword.iskeyword(b)}
    # parameters of private functions (underscore-prefixed: never part of an interface) are renamed too, unless the name is passed
    # as a keyword somewhere in the package (GLOBAL_KEYWORDS) or is one of the conventional receivers
    if fn.name.startswith("_") and not fn.name.startswith("__"):
        nested_params = set()
        for n in ast.walk(fn):
            if isinstance(n, (ast.FunctionDef, ast.AsyncFunctionDef, ast.Lambda)) and n is not fn:
                aa = n.args
                nested_params |= {x.arg for x in aa.posonlyargs + aa.args + aa.kwonlyargs}
        plain = {x.arg for x in a.posonlyargs + a.args} - {"self", "cls", "caller", "environment", "context", "eval_ctx"}   # names fixed by the Jinja call protocol
        attrs = {n.attr for n in ast.walk(fn) if isinstance(n, ast.Attribute)}
        strs = {n.value for n in ast.walk(fn) if isinstance(n, ast.Constant) and isinstance(n.value, str) and n.value.isidentifier()}
        names |= {p_ for p_ in plain if p_ not in GLOBAL_KEYWORDS and p_ not in nested_params and p_ not in attrs and p_ not in strs and not p_.startswith("_")}
    return names


GLOBAL_KEYWORDS = set()


def rename_module(src: str) -> str:
    tree = ast.parse(src)
    # outermost functions only: nested functions are renamed together with their parent (closures stay consistent)
    spans = []

    def visit(node, inside):
        for ch in ast.iter_child_nodes(node):
            if isinstance(ch, (ast.FunctionDef, ast.AsyncFunctionDef)) and not inside:
                names = local_names(ch)
                # names read in the function but bound at module/class level with the same identifier are still fine: we
                # rename only identifiers *bound* in this function
                start = min([ch.lineno] + [d.lineno for d in ch.decorator_list])
                spans.append((start, ch.end_lineno, ch.body[0].lineno, names))
                visit(ch, True)
            else:
                visit(ch, inside)

    visit(tree, False)
    if not spans:
        return src
    toks = list(tokenize.generate_tokens(io.StringIO(src).readline))
    out = []
    prev_sig = None
    for t in toks:
        if t.type == tokenize.NAME:
            for start, end, body_start, names in spans:
                if start <= t.start[0] <= end and t.string in names and not (prev_sig is not None and prev_sig.string == "."):
                    t = t._replace(string=t.string + "_zq")
                    break
        if t.type not in (tokenize.NL, tokenize.NEWLINE, tokenize.COMMENT, tokenize.INDENT, tokenize.DEDENT):
            prev_sig = t
        out.append(t)
    # rebuild preserving layout: replace by position from the end of each line
    lines = src.splitlines(keepends=True)
    edits = {}
    for o, t in zip(toks, out):
        if o.string != t.string:
            edits.setdefault(o.start[0], []).append((o.start[1], o.end[1], t.string))
    for ln, es in edits.items():
        s = lines[ln - 1]
        for a, b, new in sorted(es, reverse=True):
            s = s[:a] + new + s[b:]
        lines[ln - 1] = s
    return "".join(lines)


def main(dest: str) -> int:
    dest_root = pathlib.Path(dest)
    target = dest_root / "src" / "nunavut"
    if target.exists():
        shutil.rmtree(target)
    target.parent.mkdir(parents=True, exist_ok=True)
    shutil.copytree(REPO / "src" / "nunavut", target, ignore=shutil.ignore_patterns("__pycache__"))
    for q in sorted(target.rglob("*.py")):
        try:
            for n in ast.walk(ast.parse(q.read_text(encoding="utf-8"))):
                if isinstance(n, ast.keyword) and n.arg:
                    GLOBAL_KEYWORDS.add(n.arg)
        except SyntaxError:
            pass
    n_files = n_changed = 0
    for p in sorted(target.rglob("*.py")):
        rel = p.relative_to(target).as_posix()
        if rel.startswith("jinja/jinja2/") or rel.startswith("jinja/markupsafe/"):
            continue
        n_files += 1
        src = p.read_text(encoding="utf-8")
        new = rename_module(src)
        if new != src:
            try:
                compile(new, str(p), "exec")
            except SyntaxError as e:
                print(f"skip {rel}: renamed text does not compile ({e})")
                continue
            # inside a function, doctest text in docstrings is string content and is not touched
            p.write_text(new, encoding="utf-8")
            n_changed += 1
    print(f"alpha-renamed {n_changed}/{n_files} modules under {target}")
    return 0


if __name__ == "__main__":
    sys.exit(main(sys.argv[1]))
