#!/venv/bin/python
"""Breaking twins of recorded refactorings: a refactoring is applied to a scratch worktree, then one textual edit that breaks the property
in the *new* spelling; the named check must fire the named rule.  Guards the generalisations made for the refactorings against having
become blind.   tools/twin_check.py   (exit 1 if a twin is missed)"""
import pathlib
import subprocess
import sys
import tempfile

VERIF = pathlib.Path(__file__).resolve().parent.parent
REPO = pathlib.Path("/repo")

TWINS = [
    ("C12-b12", "src/nunavut/jinja/__init__.py", "        self._handle_overwrite(output_path, allow_overwrite)\n        output_path.parent.mkdir",
     "        if allow_overwrite:\n            self._handle_overwrite(output_path, allow_overwrite)\n        output_path.parent.mkdir", "C12", "R-C12-GATE"),
    ("C13-b13", "src/nunavut/lang/cpp/__init__.py", "        return defaults[language_standard]  # type: ignore", "        return {\"std\": language_standard}", "C13", "R-C13-ORDER"),
    ("C16-b11", "src/nunavut/jinja/loaders.py", "                    search_queue.appendleft(base_type)", "                    search_queue.append(base_type)", "C16", "R-C16-PRECEDENCE"),
    ("C15-b13", "src/nunavut/jinja/__init__.py", "            return (resource_line[:-2], \"\\r\\n\")", "            return (resource_line[:-1], \"\\r\\n\")", "C15", "R-C15-COPY"),
    ("C18-b11", "src/nunavut/lang/py/support/nunavut_support.j2", "    if isinstance(field_type, pydsdl.PrimitiveType):\n        set_attribute(destination, f.name, value)\n        return",
     "    if isinstance(field_type, pydsdl.PrimitiveType):\n        return", "C18", "R-C18-BUILTIN"),
    ("C08-b12", "src/nunavut/jinja/loaders.py", "            if loader is not None:\n                yield loader", "            if loader is not None and loader is self._fsloader:\n                yield loader", "C08", "R-C08-LOADER-ENUM"),
    ("C10-b12", "src/nunavut/lang/_common.py", "        if self._omit_serialization_support:\n            return []", "        if not self._omit_serialization_support:\n            return []", "C17", "R-C17-SCOPE"),
    ("C03-b12", "src/nunavut/lang/c/__init__.py", "    (pydsdl.FloatType, lambda t: t.bit_length in (32, 64)),", "    (pydsdl.FloatType, lambda t: t.bit_length in (16, 32, 64)),", "C01", "R-C01-ZEROCOST"),
    ("C06-b13", "src/nunavut/lang/c/__init__.py", "                dep_types.uses_integer or dep_types.uses_boolean_static_array or dep_types.uses_variable_length_array",
     "                dep_types.uses_integer or dep_types.uses_variable_length_array", "C06", "R-C06-STD-INCLUDES"),
    ("C12-b11", "src/nunavut/jinja/__init__.py", "lambda: LimitEmptyLines(limit_empty_lines)", "lambda: LimitEmptyLines(limit_empty_lines or 1)", "C15", None),
    # round 7 refactorings
    ("C11-b10", "src/nunavut/_namespace.py", "            name, _, _ = name.rpartition(\".\")", "            name, _, _ = name.partition(\".\")", "C11", "R-C11-LINKS"),
    ("C14-b9", "src/nunavut/lang/c/support/serialization.j2", "        *last_dst = (*last_dst & (uint8_t)~mask) | (*last_src & mask);", "        *last_dst = (uint8_t)(*last_src & mask);", "C14", "R-C14-RMW"),
    ("C05-b10", "src/nunavut/lang/cpp/templates/_definitions.j2", "MAX_INDEX = {{ union_options | length }}U;", "MAX_INDEX = {{ union_options | length - 1 }}U;", "C05", "R-C05-SOURCE"),
    ("C16-b9", "src/nunavut/jinja/loaders.py", "for loader in (self._fsloader, self._package_loader) if loader is not None]", "for loader in (self._package_loader, self._fsloader) if loader is not None]", "C16", "R-C16-PRECEDENCE"),
    ("C12-b10", "src/nunavut/cli/runners.py", "        return [self._build_ext_program_postprocessor(run_program), set_file_mode]", "        return [set_file_mode, self._build_ext_program_postprocessor(run_program)]", "C12", "R-C12-MODE"),
    ("C19-b9", "src/nunavut/jinja/jinja2/parser.py", "        return bool(marker) and marker[-1] == '*'", "        return bool(marker) and marker[-1] in '*%'", "C19", "R-C19-PARSER"),
    ("C20-b9", "src/nunavut/lang/html/__init__.py", "        service_name, _ = instance.full_name.rsplit(\".\", 1)", "        service_name, _ = instance.full_name.split(\".\", 1)", "C20", "R-C20-ANCHOR"),
    ("C13-b10", "src/nunavut/lang/_language.py", "        loaded = self._load_config()\n        self._config = loaded\n        return loaded", "        loaded = self._load_config()\n        return loaded", "C13", "R-C13-ORDER"),
    # round 8, second batch
    ("C19-b11", "src/nunavut/jinja/extensions.py", '_ELIF_TAGS = (("name:elifuses", False), ("name:elifnuses", True))', '_ELIF_TAGS = (("name:elifuses", True), ("name:elifnuses", False))', "C19", "R-C19-EXT"),
    ("C19-b11", "src/nunavut/jinja/extensions.py", '_QUERY_METHODS = {False: "_use_query", True: "_use_nquery"}', '_QUERY_METHODS = {False: "_use_query", True: "_use_query"}', "C19", "R-C19-EXT"),
    ("C09-b11", "src/nunavut/lang/_common.py", "encoded = token_pattern.sub(self._encoding_filter, encoded)", "encoded = token_pattern.sub(self._encoding_filter, token)", "C09", "R-C09-IDENTITY"),
    ("C09-b11", "src/nunavut/lang/_common.py", "            self._verify_encoding_rules(token, encoding_rules)\n", "            pass\n", "C09", "R-C09-RECHECK"),
    ("C09-b11", "src/nunavut/lang/_common.py", "if any(token_pattern.match(token) for token_pattern in encoding_rules):",
     'if any(token_pattern.match(token) for token_pattern in self._token_encoding_rules_by_identifier_type["all"]):', "C09", "R-C09-IDENTITY"),
    ("C02-b11", "src/nunavut/lang/py/templates/deserialization.j2", "{{ _deserialize_array_elements(t.element_type, ref, length_ref, offset + t.length_field_type.bit_length,",
     "{{ _deserialize_array_elements(t.element_type, ref, length_ref, offset,", "C02", "R-C02-PY-ALIGN"),
    ("C02-b12", "src/nunavut/lang/c/templates/deserialization.j2", "'offset_bits < capacity_bits'", "'offset_bits <= capacity_bits'", "C02", "R-C02-BOUNDED-READ"),
    ("C02-b12", "src/nunavut/lang/c/templates/deserialization.j2", "|format(t.bit_length), '0U')", "|format(t.bit_length), '1U')", "C02", "R-C02-BOUNDED-READ"),
    ("C02-b12", "src/nunavut/lang/c/templates/deserialization.j2", "        {{ reference }} = {{ missing }};", "        (void) 0;", "C02", "R-C02-BOUNDED-READ"),
]


def sh(cmd, **kw):
    return subprocess.run(cmd, capture_output=True, text=True, **kw)


def main():
    bad = 0
    for bid, rel, old, new, prop, rule in TWINS:
        wt = pathlib.Path(tempfile.mkdtemp(prefix="nvsa-twin-"))
        wt.rmdir()
        try:
            sh(["git", "-C", str(REPO), "worktree", "add", "-q", "--detach", str(wt), "HEAD"])
            r = sh(["git", "-C", str(wt), "apply", str(VERIF / "seeded" / "benign" / bid / "patch.diff")])
            if r.returncode:
                print(f"{bid}: refactoring does not apply")
                bad += 1
                continue
            p = wt / rel
            s = p.read_text()
            if s.count(old) != 1:
                print(f"{bid}: twin edit matches {s.count(old)} times - SETUP")
                bad += 1
                continue
            p.write_text(s.replace(old, new, 1))
            c = sh(["/venv/bin/python", str(VERIF / "check"), prop, "--root", str(wt), "--evidence-dir", str(wt / "ev")], timeout=900)
            fired = [ln for ln in c.stdout.splitlines() if "violated:" in ln]
            ok = c.returncode == 1 and (rule is None or any(f"[{rule}]" in ln for ln in fired))
            print(f"{'ok  ' if ok else 'MISS'} {bid} + edit -> {prop} rc={c.returncode} {[ln.split(']')[0].split('[')[-1] for ln in fired][:3]}")
            bad += 0 if ok else 1
        finally:
            sh(["git", "-C", str(REPO), "worktree", "remove", "--force", str(wt)])
    return 1 if bad else 0


if __name__ == "__main__":
    sys.exit(main())
