#!/venv/bin/python
"""Regenerates /verif/MANIFEST.json from the table below.  A property is claimed when checks/<id>.py exists."""
import json
import pathlib

V = pathlib.Path(__file__).resolve().parent.parent

P = {
    "C01": dict(
        tech="template-AST dispatch exhaustiveness, error-propagation and reject-before-emit ordering rules over the Jinja AST + embedded C/C++/Python token stream",
        text="Decides structural necessary conditions on every path of the serializer templates of all three languages: kind dispatch is exhaustive over the pydsdl class hierarchy and closed by a generation failure; over-long arrays and bad union tags are rejected before any byte of the field is written; every fallible support call has its error tested and returned; each emitter advances the cursor once, after its write; the bulk-copy selector is_zero_cost_primitive admits only standard-width integers / float32-64 on little-endian; once a clamping temporary exists the raw field is not read again; the compile-time offset set given to per-element emitters covers every element position. Bit-exact wire representation (a numerical result over all values and offsets) is declined.",
        note="Trusted: bundled Jinja parser, pydsdl class hierarchy. Decides shape, not values.", ref="4/C01"),
    "C02": dict(
        tech="template-AST dominance rules: bounded reads, representation checks before use, consumed-size provenance",
        text="Decides, on every template path of the deserializers: dispatch exhaustiveness; raw buffer reads in C lie under a cursor-vs-capacity comparison with a zeroing else; array length / union tag / delimiter header are validated with an error exit before they are used; the reported size is min(cursor, capacity); the nested window of a composite is bounded by the (validated) size variable and the delimiter header is compared with what remains after the header was consumed; zero-cost predicate and element offset sets as for C01. Decoded values for all byte strings are declined (numerical).",
        note="Trusted: bundled Jinja parser. Path-insensitive over Jinja guards (over-approximation asks for more guards, never fewer).", ref="4/C02"),
    "C03": dict(
        tech="sibling-agreement checks between serializer/deserializer macro pairs and between C, C++ and Python dispatch tables; option-scope guard rule",
        text="Decides necessary conditions of agreement: writer and reader macros of each kind branch on the same Jinja conditions and advance the cursor by the same expression; the three languages agree on the kind set and on taking prefix/header widths and capacities from the model; LITTLE_ENDIAN / assert options only select between an aligned fast path and the generic call or emit asserts; single-language specialisations (zero-cost predicate, clamped-temporary use, element offset sets) hold in each language. Equality of bytes/values across codecs needs execution and is declined.",
        note="Trusted: bundled Jinja parser.", ref="4/C03"),
    "C04": dict(
        tech="template-AST dominance and consistent-enumeration rules (write bound, index bound, union index, replace-not-append, destroy-before-emplace)",
        text="Decides on every template path: raw buffer writes of C serializers are dominated by the unconditional capacity check; count bounds equal declared array dimensions; every loop in a C++ union template that relates fields to tag numbers iterates the same unfiltered sequence; C++ array deserialization empties the container before appending; placement-new in the C++14 union is preceded by destroy_current() in members callable on live objects and the destructor call is skipped for primitive scalars only; nested deserializers get a window bounded by the validated size. Absence of UB/leaks at run time is declined.",
        note="Trusted: bundled Jinja parser; C/C++ text is tokenised, not compiled.", ref="4/C04"),
    "C05": dict(
        tech="unit (bits vs bytes) inference and def-use agreement over template expressions; sibling agreement across languages",
        text="Decides: every exported quantity whose name says bytes is built from a bit quantity through //8 or bits2bytes_ceil; metadata values flow from the named pydsdl attributes; every metadata identifier used is defined with the same prefix/suffix; the buffer-too-small refusal exists on every serializer path. Numerical sufficiency of bounds and constant rendering are declined.",
        note="Trusted: pydsdl attribute units (axioms).", ref="4/C05"),
    "C06": dict(
        tech="name-resolution exhaustiveness over all template paths (filters, tests, globals, macros, includes, options) + guard/pairing rules",
        text="Decides that generation cannot fail with an unresolved name on any template path (StrictUndefined makes that a generation error on exactly the inputs that reach it), that every options.<key> read is defined for the language, that support-header symbols are referenced only under `not nunavut.support.omit`, and that include guards / extern C / namespaces are paired. 'Compiles without diagnostics' is a compiler outcome and is declined.",
        note="Trusted: bundled Jinja parser; registry model of the filter/test naming convention.", ref="4/C06"),
    "C07": dict(
        tech="effect analysis: inventory of ambient-state reads (Python AST, import-resolved) and tainted template expressions, guard-dominance by embed_auditing_info, hash-order iteration rule",
        text="Decides that ambient state (clock, environment, absolute locations, platform data, implicit clocks of library calls, directory and hash order) can reach generated text only under the auditing guard: every such read in the package and every tainted expression in the 40 built-in templates must be guarded or be a classified site whose structural justification is re-checked each run; unclassified sites are violations. Byte identity of two runs is declined (relation between executions).",
        note="Trusted: CPython ast, bundled Jinja parser. pydsdl internals beyond the listed axioms are not analysed.", ref="4/C07"),
    "C08": dict(
        tech="effect analysis over the call graph (file-system effects control-dependent on not is_dryrun, mode forwarded unmodified through helper methods) + sibling cross-check of listing vs generating entry points + completeness/injectivity rules on the template enumeration",
        text="Decides: every file-system effect reachable from generate_all is control-dependent on `not is_dryrun`; a function that receives is_dryrun forwards its own parameter; constructors run before listing contain no effect; _list_outputs_only and _generate reach the generators (directly or through private helpers, parameters bound) under the same conditions with the same output-determining arguments and listing passes is_dryrun=True; DSDLTemplateLoader.get_templates accumulates, unconditionally and injectively, every file of a recursive glob over every search path and every package template; the support generator reads exactly the resources its listing names and resolves each through the loader that renders it; every file a built-in template pulls in can be named by the enumeration. Equality of the printed list with a real run's files is declined (two runs).",
        note="Trusted: CPython ast; callee resolution is the engine's own (self./cls./import resolution + name-based fallback).", ref="4/C08"),
    "C09": dict(
        tech="must-pass-through on TokenEncoder.strop over verification sites (direct or through private helpers) + regex-AST reasoning over properties.yaml (alphabet coverage, FIRST sets, keyword tables) + constant folding of the Python reserved list",
        text="Decides: no return of strop skips the three dry-run re-verifications, each of which re-raises or replaces the token through the failure handler; transformations change the token only on a match and a match in dry-run mode raises; the encoded token is written only by the token parameter or the match-callback substitution and the callback never returns an empty replacement; strop's call graph is free of ambient reads; for each built-in language the encoding rules cover the complement of the identifier alphabet, encoded/stropped images stay inside it, reserved lists contain the ISO keyword tables, Python's list folds to keyword.kwlist plus the names of the builtins module, and the failure handlers have the shape `_` + lower-cased letter + rest. Validity for every unicode string as a value-level claim is declined.",
        note="Trusted: re._parser regex ASTs; embedded C11/C++20 keyword tables; Python keyword/builtins modules.", ref="4/C09"),
    "C10": dict(
        tech="state inventory (module globals, class attributes, caches, shared-instance attributes written in the per-file call graph) with reset-dominance / pure-memo classification",
        text="Decides: every piece of state that outlives one generated file and is written inside the per-file call graph is reset unconditionally at the per-file entry, or is a memo keyed by all its inputs whose entries are functions of their key, or never reaches text; filters that touch the per-file name counters cannot be constant-folded at template compile time (attribute set read from the bundled jinja2); compiled templates stay in a per-generator environment; each type is rendered with a fresh context and templates do not write shared namespaces. Byte-equality alone-vs-together is declined.",
        note="Trusted: CPython ast; engine call graph.", ref="4/C10"),
    "C11": dict(
        tech="who-may-construct / who-may-write ownership rules and argument-provenance (data-flow by parameter position, no source-text matching) over the Python AST",
        text="Decides: a type's relative path is built only in IncludeGenerator.make_path and all consumers obtain it from there with the same extension source; tree links and the type->path map are written only in their dedicated methods; output paths are joined onto the base output path only; every ancestor namespace of a type is indexed and linked to its parent; the read-through factory is the only constructor of Namespace objects; traversal generators recurse unconditionally. Injectivity and tree shape for all type sets are declined.",
        note="Trusted: CPython ast.", ref="4/C11"),
    "C12": dict(
        tech="must-pass-through (overwrite gate dominates every create/truncate) + gate-shape + post-processor ordering rules",
        text="Decides: every call that creates or truncates an output file is dominated in its function by _handle_overwrite(path, allow_overwrite) with allow_overwrite unmodified from generate_all; inside the gate only the allow branch changes mode and the other raises; SetFileMode is appended unconditionally and last; file post-processors run after the file is closed. Content equality with a clean run is declined.",
        note="Trusted: CPython ast.", ref="4/C12"),
    "C13": dict(
        tech="table agreement (argparse definitions vs DefaultValue wrapping), ordering and aliasing/ownership rules",
        text="Decides: every defaulted CLI flag copied into language options is wrapped in DefaultValue; file configuration is merged before builder overrides; deep_update never stores a mapping reachable from the source into the target (no shallow copy); _sections is written only by LanguageConfig; each builder owns a fresh loader/config. Merge results for all nested maps are declined.",
        note="Trusted: CPython ast.", ref="4/C13"),
    "C14": dict(
        tech="clang JSON AST rules over the C and C++ support headers expanded by the repository's generator at each point of the option lattice the templates branch on (endianness x asserts x omit-float; quick: 3 points, thorough: all 12, C++ parsed as c++14 and c++17): dominance of bound checks over destination stores, saturated read lengths, capacity/width agreement, non-wrapping tail arithmetic, masked read-modify-write stores in the raw copy, byte-table order, width-family and C/C++ sibling agreement; Python support: linear-form cursor-advance evaluation and table/shape rules over the rendered module's ast",
        text="Decides for the C and C++ support headers: every store into a caller's buffer by a set primitive is dominated by a size-vs-(offset+length) comparison that returns the buffer-too-small error and covers the stored extent (wrappers pass buffer/size/offset through unchanged); every read uses a length saturated against the primitive's own size/offset (or copyTo's clamp) and lands in a zero-initialised local large enough for it; the saturation constant, local capacity, return type and name agree on W, getI<W> delegates to getU<W>, shifted literals are wide enough; remaining-bits subtractions cannot wrap; partial-byte stores in the raw copy are masked read-modify-writes and whole-byte moves cover floor(len/8) bytes; endianness-neutral byte tables follow wire order; bitspan::setZeros clears ceil((offset%8+len)/8) bytes and preserves the bits below the offset; the four getI widths are one routine up to W; C and C++ float16 pack/unpack are the same computation. For the Python support module (rendered statically, parsed with ast): every add_*/fetch_* method moves the bit cursor by exactly the bits it addresses (linear-form evaluation of its effect on _bit_offset through loops and delegated calls), u<W>/i<W>/f<W> width tables, complementary shift pairs and 8-bit mask of the unaligned byte copy and its reader, value / most-significant-byte masks, zero extension of out-of-range reads and alignment assertions before direct indexing. Bit-exact results for all offsets/lengths/values and float16 rounding quality are declined (numerical; exhaustive enumeration is a dynamic technique).",
        note="Trusted: clang 14 parser/JSON dump; expansion of the support template by the repository's own generator is a build step (no DSDL type, nothing compiled to an executable or run).", ref="4/C14"),
    "C15": dict(
        tech="driver model (carriers, terminator recogniser, scanned text) extracted from the line splitter, regex-language computation over the terminator pattern's AST, per-execution-path contracts of the line post-processors with counter replay, dominance/loop-nesting rule for the per-file reset",
        text="Decides: every completed line and the non-empty final remainder reach _filter_and_write_line, which applies all processors in list order and writes line then terminator; the splitter recognises exactly LF and CRLF (regex language; str.splitlines is rejected) and either scans carried text plus chunk or re-joins a terminator cut at a chunk boundary; no chunk text is dropped between chunks; on every path TrimTrailingWhitespace keeps the terminator and returns the line cut at an end-anchored all-whitespace match (or rstrip()), unchanged only where no trailing whitespace exists; on every path LimitEmptyLines zeroes its counter and passes a non-empty line, counts an empty line once and elides it exactly when the count exceeds N; the header copier does not drop characters; on the way to every file opened for writing whose body applies a processor list a reset() loop over that very list runs once per file (same function or every caller, inside all surrounding loops). Equivalence for all texts and chunk schedules is declined.",
        note="Trusted: CPython ast, re._parser.", ref="4/C15"),
    "C16": dict(
        tech="ordering and who-may-write rules on the loader and environment (precedence, guarded insertion of user names, test table construction)",
        text="Decides: in get_source the package loader is reached, path by path, only where no file-system loader exists or inside the handler of the file-system loader's own failed lookup; type_to_template searches the file-system listing first (straight-line or loop form) and the package listing only when the first search found nothing; ancestor search starts at the class, is FIFO over __bases__ and matches a class to the template carrying its own name; the class -> template memo is filled only for the class whose own name selected the template; user filters/tests enter only through _add_to_environment which raises on collisions; user globals are checked against every existing global after all built-in globals were installed (element-wise, or wholesale straight after a raising membership test with no installer in between) and are not overwritten later; class-name tests and aliases are bound to one predicate, an alias drops a Type/Field suffix only when the name ends with it and something is left, and aliases do not collide. The resolution function over all histories is declined.",
        note="Trusted: CPython ast; pydsdl class hierarchy for the alias table.", ref="4/C16"),
    "C17": dict(
        tech="sibling agreement between support-header option definitions and type-header option assertions (unfiltered iteration, same name/value transformations) + value-type exhaustiveness",
        text="Decides: both sides iterate options.items() unfiltered and use the same name and value transformations (string building normalised); to_static_assertion_value handles every value type occurring in properties.yaml options and fails otherwise; documented string choices map to distinct constants and no per-language validation hook stores a fixed value over a configured option; assertions are emitted exactly when the support header is included and outside any further preprocessor conditional; inside the per-option loops the option value reaches the header text only as the integer to_static_assertion_value makes of it (a raw value with its own quotes would stop identical option sets from compiling). The compiler's rejection itself is declined.",
        note="Trusted: bundled Jinja parser, PyYAML.", ref="4/C17"),
    "C18": dict(
        tech="dominance rules on the Python data-object template (admission check dominates backing-field assignment; union exclusivity loops)",
        text="Decides on every rendered path of py/templates/base.j2: each setter's assignment to the backing field is dominated by the kind's admission check with ValueError on the other branch; assign_array compares the length with == on fixed and <= on variable array paths, its zero-copy buffer path admits only bytes/bytearray and 8-bit elements, and a str is encoded only for string_like arrays; __init__ routes through setters; union setters clear every other option over the unfiltered field list and only after the new value passed validation; update_from_builtin / _to_builtin_impl walk the unfiltered field list, skip a field only when the source has no entry for it, apply every kind, reject leftovers, and produce a str only where the model is string_like; the pickled model is the generating type, computed per call (no memo keyed on the type, helpers included), and _restore_constant_ inverts filter_pickle's layers; float setters are decided with the width condition evaluated over {16, 32, 64}. Run-time object round trips are declined.",
        note="Trusted: bundled Jinja parser; Python text in templates is tokenised line-wise.", ref="4/C18"),
    "C19": dict(
        tech="confinement of the lexer/parser modifications: regex-AST rule on lexer alternatives, per-path abstract interpretation of subparse (parsed / list / wrapped value vs. marker status of the path), node-kind rule for the assert tag against the bundled compiler's output suppression, terminator-set agreement in the lexer",
        text="Decides that Nunavut's modifications cannot be reached by input without the marker: every non-stock lexer alternative requires a literal `*` after the start string; the unmarked alternative of every block opener is built on the same lstrip-aware prefix expression; the lexer cache key covers every environment attribute the Lexer constructor reads; on every path of subparse's variable and block branches a construct is wrapped in the lineprefix filter exactly when the path establishes the marker (a marker test and-ed with another condition is reported), unmarked constructs reach the body unchanged (a single node appended, a node list spliced, as in stock), and the prefix is the marker token minus its three marker characters through any helper chain; under keep_trailing_newline the lexer restores the final line break for exactly the terminators of its newline_re; do_lineprefix keeps Markup values Markup and leaves empty lines unprefixed; the assert tag compiles to a node kind the compiler runs wherever a conditional runs (not an Output, which is dropped at the top level of a child template), raises exactly on falsy values and contributes no text; ifuses produces ordinary nodes.If chains. Output equivalence with upstream on all templates is declined (upstream snapshot unavailable offline).",
        note="Trusted: CPython ast, re._parser.", ref="4/C19"),
    "C20": dict(
        tech="taint + guard analysis of HTML templates (autoescape resolution, escape on every DSDL free-text sink and preserved by later filters), per-block tag balance, symbolic string agreement of the anchor/url filters, link rule on rendered text paths, permutation rule on the listing filters",
        text="Decides: where autoescaping is off for a template, every output of DSDL free text passes through an escaping filter that no later filter undoes (striptags decodes entities) and markup-returning filters escape what they interpolate; static markup of each Jinja block is balanced; url_from_type and tag_id evaluate to the same anchor string (format / f-string / helper spellings alike); the link does not hard-code the namespace page name; on every rendered path an href derived from url_from_type is exactly <depth prefix of the containing page><url>; a service's request/response link to the service's own entry; the sort filters that order the listed types and namespaces return a permutation of their input (a dropped type has no anchor). Well-formedness of complete pages is declined.",
        note="Trusted: bundled Jinja parser, html.parser tokenizer for static markup.", ref="4/C20"),
}

# clauses added in rounds 5 and 6 (DESIGN.md 7.2), appended to the level text of the property
EXTRA = {
    "C01": "Also: the composite emitter takes the nested object's sizes and asserted bounds from t.inner_type.bit_length_set.",
    "C03": "Also: the expression handed to the assert() macro has no effect of its own (it vanishes with assertion generation off); the allocator-extended copy / move constructors of C++ unions take their value from rhs like those of structures.",
    "C06": "Also: every C local used in a rendered <T>_serialize_/<T>_deserialize_ body (asserted expressions included) is declared earlier on the same path; the keyword arguments of the generated Python deserializer and the parameters of __init__ enumerate the same fields_except_padding; Python code asks option keys through get_option and section-level keys through get_config_value*.",
    "C07": "Also: folded unique-name draws sit only in templates every type loads alike; a component of a namespace's folder is printed unguarded only while the folder is stored resolved.",
    "C08": "Also: every loader get_source consults is enumerated whenever it exists; the DSDL inputs listed come from the traversal the generator itself iterates.",
    "C09": "Also: the configured encoding rules are applied one after another to the running result and the stability check walks the same list.",
    "C10": "Also: templates are compiled only for the file about to be rendered while a counter filter is foldable; state mutated through a local alias of an attribute / cached property is inventoried; every class of the LinePostProcessor hierarchy answers the per-file reset for its own state and for the processors it holds.",
    "C11": "Also: the namespace table is asked with raw DSDL names, never with an attribute of a Namespace object; every public enumeration yields the entries of every visited namespace.",
    "C12": "Also: nothing on the way from the command line to generate_all() probes the file system (what a run writes is decided by its arguments); an omitted allow_overwrite argument is not a forwarded one.",
    "C13": "Also: the configuration classes keep no state on the class or in module globals.",
    "C14": "Also: the half-precision pack clamps to infinity as a 32-bit pattern before narrowing; the setters' copy out of the 8-byte value image is bounded by the image (by copyTo's clamp or at the call).",
    "C15": "Also: text reaches the output only through _filter_and_write_line and no chunk leaves the scan early; the limiter is installed for every given N, 0 included.",
    "C17": "Also: options.items() fetched once and walked twice needs a re-iterable view; no language hook hides a configured option from the templates.",
    "C18": "Also: the union clearing is decided per rendered setter path (guard type.inner_type is UnionType); get_attribute / set_attribute probe the plain name before the suffixed one; the macro's type argument is not re-bound; default array elements are distinct objects.",
    "C19": "Also: do_lineprefix is reachable only through the filter table; string literals are unescaped after newline normalisation; the `ignore missing` handler closes the try around the template lookup only; every top-level name is published to context.vars.",
    "C20": "Also: a filter that escapes with quote=False or returns Markup may not feed an attribute value; the namespace macros recurse into every nested namespace unconditionally.",
}
# clauses added in round 7
EXTRA7 = {
    "C01": "The top-level serialize() macro is called for every type (no type-dependent trivial body); bulk array copies precede and match the cursor advance.",
    "C02": "The top-level deserialize() macro is called for every type; bulk array reads precede and match the cursor advance; every path of the scalar emitters contains a judged read.",
    "C03": "The C++ value initializer names the counterpart value on every initialising path (allocator flavours); bulk transfers symmetric.",
    "C05": "VariantType::MAX_INDEX of both C++ union flavours is the option count; an unparenthesised most-negative literal needs the macro's parentheses.",
    "C06": "R-C06-COMMENT-EOL: nothing is glued onto a `//` comment line by whitespace control; R-C06-VARIANT-INDEX: union alternatives are selected by index only.",
    "C07": "The include order is decided jointly: the caller sorts the whole list, or sorts its part and the language's includes come in a fixed order.",
    "C09": "The identifier category reaches the encoder as given.",
    "C12": "Post-processor list builders with several returns end with SetFileMode in each alternative.",
    "C13": "The loader reads every configuration document the package ships; configuration values are not changed in place by their consumers.",
    "C14": "Direct reads with quotient indexes are bounded; the copy loop's step is a minimum taken at full width (termination); the window subtraction of subspan() is guarded; Python two's complement recognised by shape with folded constants.",
    "C15": "Support-file copies do not translate line terminators (fix 1efe2dd); the generator hands on every processor it was given, in order.",
    "C17": "An assertion is not glued onto a `//` banner line.",
    "C18": "get_class retries stropped namespace components one at a time.",
    "C19": "Sibling agreement inside the engine: constant-folding tables vs emitted operators, merged context view vs lookup order.",
    "C20": "The page a type link names lists the entry; the url filter is used through the templates only (page-depth prefix).",
}
EXTRA8 = {
    "C01": "R-C01-CLAMP: recognised saturation clamps store the bound they test, lower bound from below, upper from above; R-C01-TAG: union options are numbered by loop.index0 everywhere the position is printed, C++ chains select on equality; R-C01-NESTED-WINDOW: the nested serializer's window starts behind the delimiter header space and is sized by the nested type's largest size.",
    "C02": "Raw-read guards are exact (cursor < capacity or cursor + positive length <= capacity); Python length-prefix and delimiter-header refusals judged per path (exact comparison, read -> refuse -> use); R-C02-TAG as R-C01-TAG; {% call %} scaffolds and helper macros are read in their callers.",
    "C09": "_encode is read with its private helpers written out (value and procedure helpers).",
    "C19": "UseQuery.parse is read with private methods written out and class constants in place (flag tables).",
}
for _k, _v in EXTRA7.items():
    EXTRA[_k] = (EXTRA.get(_k, "") + " " + _v).strip()
for _k, _v in EXTRA8.items():
    EXTRA[_k] = (EXTRA.get(_k, "") + " " + _v).strip()
for _k, _v in EXTRA.items():
    P[_k]["text"] = P[_k]["text"] + " " + _v

NOT_BUILT = "check not built yet in this round (planned; see DESIGN.md section 4)"


def main():
    checks = []
    na = []
    for pid, d in P.items():
        if (V / "checks" / f"{pid}.py").exists():
            checks.append({
                "property_id": pid,
                "quick_cmd": f"./check {pid} --tier quick",
                "thorough_cmd": f"./check {pid} --tier thorough",
                "evidence_file": f"/verif/evidence/{pid}.json",
                "replay_cmd_template": "./check --replay {path}",
                "engine": "nvsa",
                "level_claimed": {"category": "other", "text": d["text"], "design_ref": "DESIGN.md section " + d["ref"]},
                "level_note": d["note"] + " Decides the listed structural clauses, not the run-time behaviour.",
                "technique": "static analysis: " + d["tech"],
            })
        else:
            na.append({"property_id": pid, "reason": NOT_BUILT})
    m = {
        "version": 1,
        "setup_cmd": "./setup.sh",
        "hooks": {
            "guard": "NUNAVUT_VERIF",
            "enable": "none needed: the checks read /repo's working tree as it is (static analysis); no source hooks exist",
            "baseline_off_cmd": "cd /repo && /venv/bin/python -m pytest -ra -q -p no:cacheprovider --timeout=900 --continue-on-collection-errors",
            "source_commits": [],
            "add_only": True,
        },
        "engines": [{
            "name": "nvsa",
            "path": "/verif/nvsa",
            "serves_properties": [c["property_id"] for c in checks],
            "kind_free_text": "purpose-built static analyser: Python ast + call graph + guard contexts; Jinja template ASTs via the bundled parser; regex ASTs; clang JSON AST for the support headers",
        }],
        "checks": checks,
        "notes": "All checks are static analyses of /repo's current working tree. Exit 0 ok / 1 VIOLATION / 2 ANALYSIS-ERROR (anchor missing or front-end failure - never a silent pass). Known genuine defects are listed in /verif/known_findings.json. Tiers: quick decides every rule on the tree as it stands. thorough does the same (C14: on all 12 points of the option lattice and two C++ standards instead of 3 points) and then cross-examines the analysis itself: the property's rules are re-run on three behaviour-preserving transformations of the current tree built on the spot in a scratch directory (all locals / private parameters / template locals / macro parameters renamed; comparisons mirrored, if/else inverted and modules re-emitted from their ast; every template if/else inverted) and must produce the same obligations and discharges per rule - a disagreement is an ANALYSIS-ERROR (exit 2), never a VIOLATION. `./check --selftest` (not a registered command) additionally runs ~500 single-edit variants both ways.",
        "not_applicable": na,
    }
    (V / "MANIFEST.json").write_text(json.dumps(m, indent=1) + "\n")
    print(f"claimed={len(checks)} not_applicable={len(na)}")


if __name__ == "__main__":
    main()
