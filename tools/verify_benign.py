#!/venv/bin/python
"""
Confirm a behaviour-preserving refactoring produced by a seeding agent and run every check against it.

  tools/verify_benign.py <source dir with benignJ.diff benignmetaJ.json [demo1.* demo2.*]> <J> <id>

Steps (scratch git worktree of /repo under /tmp, removed afterwards):
  1. the patch applies to /repo's HEAD
  2. the pinned test suite passes the same 415 tests in the patched worktree
  3. the agent's demonstrations (demo1/demo2 of the same directory, if present) exit 0 on the patched tree
  4. every static check is run against the patched tree; any VIOLATION / ANALYSIS-ERROR is a false alarm of the machinery
Recorded under /verif/seeded/benign/<id>/ (patch.diff, meta.json).
"""
import json
import os
import pathlib
import shutil
import subprocess
import sys

VERIF = pathlib.Path(__file__).resolve().parent.parent
REPO = pathlib.Path("/repo")
sys.path.insert(0, str(VERIF / "tools"))
import verify_seed as vs  # noqa: E402


def main():
    srcdir, j, sid = pathlib.Path(sys.argv[1]), sys.argv[2], sys.argv[3]
    patch = srcdir / f"benign{j}.diff"
    meta_in = srcdir / f"benignmeta{j}.json"
    if not patch.exists() or patch.stat().st_size == 0:
        print(f"{sid}: no patch")
        return 2
    wt = pathlib.Path(f"/tmp/vb-{sid}")
    if wt.exists():
        vs.sh(["git", "-C", str(REPO), "worktree", "remove", "--force", str(wt)])
    r = vs.sh(["git", "-C", str(REPO), "worktree", "add", "--detach", str(wt), "HEAD"])
    out = {"id": sid, "kind": "benign"}
    try:
        if meta_in.exists():
            try:
                out.update({k: v for k, v in json.loads(meta_in.read_text()).items() if k in ("property", "summary", "files", "why_equivalent")})
            except Exception:
                pass
        r = vs.sh(["git", "-C", str(wt), "apply", str(patch)])
        out["patch_applies"] = r.returncode == 0
        if r.returncode != 0:
            print(f"{sid}: patch does not apply: {r.stderr[:200]}")
            return 2
        # demos
        demos = {}
        for d in sorted(srcdir.glob("demo[12].*")):
            rc, tail = vs.run_demo(d, wt / "src")
            demos[d.name] = rc
        out["demos_on_refactored_tree"] = demos
        # tests
        summary, missing = vs.run_tests(wt) if hasattr(vs, "run_tests") else ("?", [])
        out["tests"] = {"summary": summary, "stable_pass_missing_n": len(missing), "stable_pass_missing": missing[:10]}
        # checks
        fired = {}
        props = [p.stem for p in sorted((VERIF / "checks").glob("C[0-9][0-9].py"))]
        ev = wt / ".nvsa-ev"
        from concurrent.futures import ThreadPoolExecutor

        def one(prop):
            rr = subprocess.run([str(VERIF / "check"), prop, "--root", str(wt), "--evidence-dir", str(ev)], capture_output=True, text=True, timeout=900)
            lines = [ln.strip() for ln in (rr.stdout + rr.stderr).splitlines() if "violated:" in ln or "ANALYSIS-ERROR" in ln]
            return prop, rr.returncode, lines

        with ThreadPoolExecutor(max_workers=16) as ex:
            for prop, rc, lines in ex.map(one, props):
                if rc != 0:
                    fired[prop] = {"rc": rc, "lines": [x[:400] for x in lines[:6]]}
        out["alarms"] = fired
        ok_behaviour = all(v == 0 for v in demos.values()) and not missing
        out["behaviour_preserving_confirmed"] = ok_behaviour
        dest = VERIF / "seeded" / "benign" / sid
        dest.mkdir(parents=True, exist_ok=True)
        shutil.copy(patch, dest / "patch.diff")
        (dest / "meta.json").write_text(json.dumps(out, indent=1) + "\n")
        print(f"{sid}: demos={demos} tests_missing={len(missing)} ({summary.strip()[-60:]}) alarms={ {k: v['rc'] for k, v in fired.items()} }")
        for k, v in fired.items():
            for ln in v["lines"][:3]:
                print("   ", k, ln[:300])
        return 0 if (ok_behaviour and not fired) else 1
    finally:
        vs.sh(["git", "-C", str(REPO), "worktree", "remove", "--force", str(wt)])


if __name__ == "__main__":
    sys.exit(main())
