#!/venv/bin/python
"""Run every check on each recorded half of a cooperating pair (seeded/<id>/halves/*.diff), each applied alone to a scratch worktree of
/repo's HEAD, and record what fired in seeded/<id>/halves/result.json.  A half is harmless for the pair's own property by construction
(the agent's demonstration passes with it); a check of that property that fires on it needs a look."""
import concurrent.futures
import json
import pathlib
import re
import subprocess
import sys
import tempfile

VERIF = pathlib.Path(__file__).resolve().parent.parent
REPO = pathlib.Path("/repo")


def sh(cmd, **kw):
    return subprocess.run(cmd, capture_output=True, text=True, **kw)


def one(diff: pathlib.Path):
    sid = diff.parent.parent.name
    wt = pathlib.Path(tempfile.mkdtemp(prefix="nvsa-half-"))
    wt.rmdir()
    try:
        r = sh(["git", "-C", str(REPO), "worktree", "add", "-q", "--detach", str(wt), "HEAD"])
        if r.returncode:
            return sid, diff.name, {"error": "worktree"}
        r = sh(["git", "-C", str(wt), "apply", "--3way", str(diff)])
        if r.returncode:
            r = sh(["git", "-C", str(wt), "apply", str(diff)])
            if r.returncode:
                return sid, diff.name, {"error": "does not apply"}
        c = sh(["/venv/bin/python", str(VERIF / "check"), "--all", "--tier", "quick", "--root", str(wt), "--evidence-dir", str(wt / "ev")], timeout=1800)
        fired = {}
        for line in c.stdout.splitlines():
            m = re.search(r"violated: \[(R-[A-Z0-9-]+)\]", line)
            if m:
                fired[m.group(1)] = fired.get(m.group(1), 0) + 1
            if line.startswith("ANALYSIS-ERROR"):
                fired["ANALYSIS-ERROR"] = fired.get("ANALYSIS-ERROR", 0) + 1
        return sid, diff.name, fired
    finally:
        sh(["git", "-C", str(REPO), "worktree", "remove", "--force", str(wt)])


def main():
    diffs = sorted((VERIF / "seeded").glob("*/halves/*.diff"))
    out = {}
    with concurrent.futures.ThreadPoolExecutor(max_workers=6) as ex:
        for sid, name, fired in ex.map(one, diffs):
            out.setdefault(sid, {})[name] = fired
            own = sid.split("-")[0]
            flag = "OWN-PROPERTY" if any(k.startswith(f"R-{own}-") for k in fired) else ""
            print(f"{sid:10s} {name:24s} {fired} {flag}", flush=True)
    for sid, res in out.items():
        (VERIF / "seeded" / sid / "halves" / "result.json").write_text(json.dumps(res, indent=1, sort_keys=True) + "\n")


if __name__ == "__main__":
    main()
