#!/venv/bin/python
"""
Confirm a seeded breaking change and record it under /verif/seeded/<id>/.

  tools/verify_seed.py <source dir with patchN.diff demoN.* metaN.json> <N> <seed id>

Steps (all in a scratch git worktree of /repo under /tmp that is removed afterwards; /repo itself is not touched):
  1. patch applies to /repo's HEAD
  2. demo passes on the unmodified tree (NUNAVUT_SRC=/repo/src) and fails on the patched tree
  3. the pinned test suite run in the patched worktree passes the same 415 tests (ids compared with BASELINE.json)
  4. every static check is run against the patched tree (--root) and the rules that fire are recorded
"""
import json
import os
import pathlib
import shutil
import subprocess
import sys
import tempfile
import xml.etree.ElementTree as ET

VERIF = pathlib.Path(__file__).resolve().parent.parent
REPO = pathlib.Path("/repo")


def sh(cmd, **kw):
    return subprocess.run(cmd, shell=isinstance(cmd, str), capture_output=True, text=True, **kw)


def run_demo(demo: pathlib.Path, src: pathlib.Path):
    env = dict(os.environ, NUNAVUT_SRC=str(src), PYTHONPATH=str(src))
    if demo.suffix == ".py":
        r = sh(["/venv/bin/python", str(demo)], env=env, timeout=900)
    else:
        r = sh(["sh", str(demo)], env=env, timeout=900)
    return r.returncode, (r.stdout + r.stderr)[-600:]


def run_tests(wt: pathlib.Path):
    """(pytest summary line, baseline-passing test ids that no longer pass) for the tree checked out at wt"""
    import re as _re
    from collections import Counter
    junit = wt / "junit.xml"
    env = dict(os.environ, PYTHONPATH=str(wt / "src"))
    t = sh(["/venv/bin/python", "-m", "pytest", "-q", "-p", "no:cacheprovider", "--timeout=900", "--continue-on-collection-errors",
            f"--junitxml={junit}"], cwd=str(wt), env=env, timeout=1800)
    base = set(json.load(open("/root/.vp/BASELINE.json"))["stable_pass"])
    passed = set()
    if junit.exists():
        for tc in ET.parse(junit).iter("testcase"):
            if not any(c.tag in ("failure", "error", "skipped") for c in tc):
                passed.add(f"{tc.get('classname')}::{tc.get('name')}")

    def norm(i):  # doctest ids carry line numbers, which any edit above them shifts
        return _re.sub(r"::line:\d+,column:\d+$", "::doctest", i)

    cb, cp = Counter(map(norm, base)), Counter(map(norm, passed))
    missing = sorted((cb - cp).elements())
    return (t.stdout.strip().splitlines()[-1] if t.stdout.strip() else ""), missing


def main():
    srcdir, n, sid = pathlib.Path(sys.argv[1]), sys.argv[2], sys.argv[3]
    skip_tests = "--skip-tests" in sys.argv
    patch = srcdir / f"patch{n}.diff"
    demos = list(srcdir.glob(f"demo{n}.*"))
    meta_in = json.loads((srcdir / f"meta{n}.json").read_text()) if (srcdir / f"meta{n}.json").exists() else {}
    if not patch.exists() or not demos:
        print("missing patch/demo")
        return 2
    demo = demos[0]
    out = VERIF / "seeded" / sid
    out.mkdir(parents=True, exist_ok=True)
    wt = pathlib.Path(tempfile.mkdtemp(prefix="nvsa-seed-"))
    shutil.rmtree(wt)
    result = {"id": sid, "property": meta_in.get("property"), "summary": meta_in.get("summary"),
              "needs_to_manifest": meta_in.get("needs_to_manifest"), "files": meta_in.get("files")}
    try:
        r = sh(["git", "-C", str(REPO), "worktree", "add", "-q", "--detach", str(wt), "HEAD"])
        if r.returncode:
            print(r.stderr)
            return 2
        r = sh(["git", "-C", str(wt), "apply", "--3way", str(patch)])
        if r.returncode:
            r = sh(["git", "-C", str(wt), "apply", str(patch)])
        result["patch_applies"] = r.returncode == 0
        if r.returncode:
            print("patch does not apply:", r.stderr[:400])
            result["error"] = r.stderr[:400]
            (out / "meta.json").write_text(json.dumps(result, indent=1))
            return 1
        rc_clean, out_clean = run_demo(demo, REPO / "src")
        rc_patched, out_patched = run_demo(demo, wt / "src")
        result["demo_on_clean_tree"] = {"exit": rc_clean}
        result["demo_on_patched_tree"] = {"exit": rc_patched, "tail": out_patched[-300:]}
        print(f"demo: clean exit={rc_clean} patched exit={rc_patched}")
        if not skip_tests:
            junit = wt / "junit.xml"
            env = dict(os.environ, PYTHONPATH=str(wt / "src"))
            t = sh(["/venv/bin/python", "-m", "pytest", "-q", "-p", "no:cacheprovider", "--timeout=900", "--continue-on-collection-errors",
                    f"--junitxml={junit}"], cwd=str(wt), env=env, timeout=1800)
            base = set(json.load(open("/root/.vp/BASELINE.json"))["stable_pass"])
            passed = set()
            if junit.exists():
                for tc in ET.parse(junit).iter("testcase"):
                    if not any(c.tag in ("failure", "error", "skipped") for c in tc):
                        passed.add(f"{tc.get('classname')}::{tc.get('name')}")
            import re as _re

            def norm(i):  # doctest ids carry line numbers, which any edit above them shifts
                return _re.sub(r"::line:\d+,column:\d+$", "::doctest", i)

            from collections import Counter
            cb, cp = Counter(map(norm, base)), Counter(map(norm, passed))
            missing = sorted((cb - cp).elements())
            result["tests"] = {"summary": t.stdout.strip().splitlines()[-1] if t.stdout.strip() else "", "stable_pass_missing": missing[:10],
                               "stable_pass_missing_n": len(missing)}
            print("tests:", result["tests"]["summary"], "missing:", len(missing))
        # static checks against the patched tree
        fired = {}
        ev = wt / "evidence"
        have = sorted(p.stem for p in (VERIF / "checks").glob("C*.py"))
        c = sh(["/venv/bin/python", str(VERIF / "check")] + have + ["--tier", "quick", "--root", str(wt), "--evidence-dir", str(ev)], timeout=1800)
        result["checks_run"] = have
        for ln in c.stdout.splitlines():
            if "violated:" in ln:
                rule = ln.split("[", 1)[1].split("]", 1)[0]
                fired.setdefault(rule, []).append(ln.split("]", 1)[1].strip()[:200])
            if "ANALYSIS-ERROR" in ln:
                fired.setdefault("ANALYSIS-ERROR", []).append(ln[:200])
        result["checks_fired"] = fired
        prop = result.get("property")
        result["caught_by_own_property_check"] = any(r.startswith(f"R-{prop}-") for r in fired) if prop else None
        print("fired:", {k: len(v) for k, v in fired.items()})
        shutil.copy(patch, out / "patch.diff")
        shutil.copy(demo, out / ("demo" + demo.suffix))
        result["confirmed"] = bool(rc_clean == 0 and rc_patched != 0 and (skip_tests or result["tests"]["stable_pass_missing_n"] == 0))
        result["what_was_run"] = [
            f"git worktree add <scratch> HEAD; git apply patch.diff",
            f"NUNAVUT_SRC=/repo/src demo -> exit {rc_clean}; NUNAVUT_SRC=<scratch>/src demo -> exit {rc_patched}",
            "PYTHONPATH=<scratch>/src /venv/bin/python -m pytest -q -p no:cacheprovider --timeout=900 --continue-on-collection-errors (ids compared with BASELINE.json stable_pass)",
            "./check --all --tier quick --root <scratch>",
        ]
        (out / "meta.json").write_text(json.dumps(result, indent=1) + "\n")
        return 0
    finally:
        sh(["git", "-C", str(REPO), "worktree", "remove", "--force", str(wt)])
        shutil.rmtree(wt, ignore_errors=True)


if __name__ == "__main__":
    sys.exit(main())
