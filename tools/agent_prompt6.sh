#!/bin/sh
# usage: agent_prompt6.sh Cxx  -> round-6 prompt: like agent_prompt.sh, but one of the two breaking changes must be a pair of
# cooperating edits or live in a file no earlier seed touched; refactorings are asked to restructure, not rename.
P=$1
AVOID=$(/venv/bin/python - "$P" <<'EOF'
import json,glob,sys,re
P=sys.argv[1]
out=[]
for mp in sorted(glob.glob(f'/verif/seeded/{P}-s*/meta.json')):
    m=json.load(open(mp))
    out.append("- "+re.sub(r'\s+',' ',m.get('summary') or '')[:300])
print("\n".join(out))
EOF
)
TOUCHED=$(/venv/bin/python - "$P" <<'EOF'
import glob,sys,re,collections
P=sys.argv[1]
c=collections.Counter()
for pp in sorted(glob.glob(f'/verif/seeded/{P}-s*/patch.diff')):
    for m in re.finditer(r'^\+\+\+ b/(\S+)', open(pp).read(), re.M):
        c[m.group(1)]+=1
print("\n".join(f"- {k} ({v}x)" for k,v in c.most_common()))
EOF
)
sh /verif/tools/agent_prompt.sh "$P" | /venv/bin/python -c '
import sys
s=sys.stdin.read()
touched=sys.argv[1]
marker="\n\nYOUR TASK has two parts."
extra=("\n\nFiles those earlier changes edited (with how often):\n"+touched+"\n"
"At least ONE of your two breaking changes must either (a) consist of TWO COOPERATING EDITS in different functions, macros or files, "
"each of which looks fine (and is harmless: property still true, demonstration still passes) when applied on its own, and which break the property only together, "
"or (b) live in a file, function or macro that none of the earlier changes edited and attack a clause of the property statement that the earlier changes did not attack. "
"Say in the meta json (key \"kind\") which of (a)/(b) applies; for (a) also verify and record that each half alone leaves your demonstration passing.")
assert marker in s
s=s.replace(marker, extra+marker,1)
s=s.replace("Examples: rename local variables","Be bolder than a rename - restructure. Examples: rename local variables")
s=s.replace("change comments or formatting.","replace a loop by a comprehension or vice versa; move a helper to another module of the package and import it; change a data representation (list vs tuple, dict literal vs constructor); merge two macros or split one; change comments or formatting.")
sys.stdout.write(s)
' "$TOUCHED"
