#!/bin/sh
# Nothing to build: the analyser is pure Python run with /venv/bin/python (PyYAML + pydsdl already there).
set -e
test -x /venv/bin/python
/venv/bin/python -c "import yaml, pydsdl, ast"
chmod +x /verif/check
echo "nvsa ready"
