"""
Both-ways self-test of the rules.

Each variant is a small edit of a scratch copy of /repo/src (text replacement, exactly one match required) that a
maintainer could plausibly make and that leaves the package importable / templates parsable:
  kind='break'  : the named rule of the named property must fire (exit 1, report mentions expect)
  kind='benign' : the property's check must stay silent (exit 0)
A failing self-test is an engine failure (exit 2), not a property verdict.
Variants live in selftest/variants/<Cxx>.py as a list VARIANTS of dicts:
  {id, kind, file (relative to repo root), old, new, expect (rule id, for break), [count]}
"""
import importlib
import json
import os
import pathlib
import shutil
import subprocess
import sys
import tempfile
import time
from concurrent.futures import ThreadPoolExecutor

HERE = pathlib.Path(__file__).resolve().parent
VERIF = HERE.parent
REPO = pathlib.Path(os.environ.get("NVSA_ROOT", "/repo"))


def load_variants(props):
    out = []
    for p in sorted((HERE / "variants").glob("C*.py")):
        pid = p.stem
        if props and pid not in props:
            continue
        mod = importlib.import_module(f"selftest.variants.{pid}")
        for v in mod.VARIANTS:
            v = dict(v)
            v["property"] = pid
            out.append(v)
    return out


def run_variant(v, tier="quick"):
    tmp = pathlib.Path(tempfile.mkdtemp(prefix="nvsa-st-"))
    try:
        root = tmp / "repo"
        (root / "src").mkdir(parents=True)
        shutil.copytree(REPO / "src" / "nunavut", root / "src" / "nunavut", ignore=shutil.ignore_patterns("__pycache__"))
        edits = v.get("edits") or [dict(file=v["file"], old=v["old"], new=v["new"], count=v.get("count", 1))]
        for e in edits:
            f = root / e["file"]
            s = f.read_text(encoding="utf-8")
            cnt = s.count(e["old"])
            if cnt != e.get("count", 1):
                return v, "SETUP", f"old text matched {cnt} times (expected {e.get('count', 1)}) in {e['file']}"
            f.write_text(s.replace(e["old"], e["new"]), encoding="utf-8")
        # sanity: edited python still compiles
        for e in edits:
            if e["file"].endswith(".py"):
                try:
                    compile((root / e["file"]).read_text(), e["file"], "exec")
                except SyntaxError as ex:
                    return v, "SETUP", f"variant does not compile: {ex}"
        r = subprocess.run(
            [sys.executable, str(VERIF / "check"), v["property"], "--tier", tier, "--root", str(root),
             "--evidence-dir", str(tmp / "evidence")],
            capture_output=True, text=True, timeout=600)
        out = r.stdout + r.stderr
        if v["kind"] == "break":
            exp = v.get("expect", "")
            fired = r.returncode == 1 and any(("violated:" in ln and f"[{exp}" in ln) for ln in out.splitlines())
            if fired:
                return v, "OK", "fired"
            return v, "FAIL", f"expected {exp} to fire; rc={r.returncode}\n" + "\n".join(out.splitlines()[-6:])
        else:
            if r.returncode == 0:
                return v, "OK", "silent"
            return v, "FAIL", f"benign variant raised an alarm; rc={r.returncode}\n" + "\n".join(
                ln for ln in out.splitlines() if "violated" in ln or "ANALYSIS" in ln)
    finally:
        shutil.rmtree(tmp, ignore_errors=True)


def tree_control(props, label, commands):
    """generic behaviour-preserving whole-tree control: build the transformed tree with `commands`, then every check must be
    silent on it with the same number of instances per rule as on the real tree"""
    tmp = pathlib.Path(tempfile.mkdtemp(prefix=f"nvsa-{label}-"))
    try:
        for cmd in commands:
            r = subprocess.run([sys.executable] + [c.replace("{tree}", str(tmp / "tree")) for c in cmd], capture_output=True, text=True, timeout=300)
            if r.returncode != 0:
                return [f"{label}: {cmd[0]} failed: {r.stdout[-300:]} {r.stderr[-300:]}"]
        all_props = [p.stem for p in sorted((VERIF / "checks").glob("C[0-9][0-9].py"))]
        wanted = [p for p in all_props if not props or p in props]

        def one(prop):
            out = []
            counts = {}
            for which, root in (("tree", REPO), (label, tmp / "tree")):
                ev = tmp / f"ev-{which}"
                rr = subprocess.run([sys.executable, str(VERIF / "check"), prop, "--root", str(root), "--evidence-dir", str(ev)],
                                    capture_output=True, text=True, timeout=900)
                if which == label and rr.returncode != 0:
                    lines = [ln for ln in (rr.stdout + rr.stderr).splitlines() if "violated" in ln or "ANALYSIS" in ln]
                    out.append(f"{prop}: alarm on the {label} tree (rc={rr.returncode}): " + " | ".join(x.strip()[:200] for x in lines[:3]))
                try:
                    d = json.loads((ev / f"{prop}.json").read_text())
                    counts[which] = {k: v["obligations"] for k, v in d["coverage"]["rules"].items()}
                except Exception:
                    counts[which] = None
            if counts.get("tree") != counts.get(label):
                out.append(f"{prop}: rule instance counts differ between the tree and its {label} copy: {counts}")
            return out

        problems = []
        with ThreadPoolExecutor(max_workers=16) as ex:
            for res in ex.map(one, wanted):
                problems.extend(res)
        return problems
    finally:
        shutil.rmtree(tmp, ignore_errors=True)


def env_control(props, label, env):
    """control that transforms the parsed templates inside the front-end (environment switch): same verdicts, same counts"""
    tmp = pathlib.Path(tempfile.mkdtemp(prefix=f"nvsa-{label}-"))
    try:
        all_props = [p.stem for p in sorted((VERIF / "checks").glob("C[0-9][0-9].py"))]
        wanted = [p for p in all_props if not props or p in props]

        def one(prop):
            out, counts = [], {}
            for which, e in (("tree", {}), (label, env)):
                ev = tmp / f"ev-{which}"
                rr = subprocess.run([sys.executable, str(VERIF / "check"), prop, "--evidence-dir", str(ev)], capture_output=True, text=True, timeout=900,
                                    env=dict(os.environ, **e))
                if which == label and rr.returncode != 0:
                    lines = [ln for ln in (rr.stdout + rr.stderr).splitlines() if "violated" in ln or "ANALYSIS" in ln]
                    out.append(f"{prop}: alarm under {label} (rc={rr.returncode}): " + " | ".join(x.strip()[:200] for x in lines[:3]))
                try:
                    d = json.loads((ev / f"{prop}.json").read_text())
                    counts[which] = {k: v["obligations"] for k, v in d["coverage"]["rules"].items()}
                except Exception:
                    counts[which] = None
            if counts.get("tree") != counts.get(label):
                out.append(f"{prop}: rule instance counts differ under {label}: {counts}")
            return out

        problems = []
        with ThreadPoolExecutor(max_workers=16) as ex:
            for res in ex.map(one, wanted):
                problems.extend(res)
        return problems
    finally:
        shutil.rmtree(tmp, ignore_errors=True)


def alpha_control(props):
    """behaviour-preserving control: every local variable of every Python function and every template-local variable
    (set / for targets) renamed -> every check silent, same instance counts"""
    tmp = pathlib.Path(tempfile.mkdtemp(prefix="nvsa-alpha-"))
    try:
        r = subprocess.run([sys.executable, str(VERIF / "tools" / "alpha_rename.py"), str(tmp / "tree")], capture_output=True, text=True, timeout=300)
        if r.returncode != 0:
            return [f"alpha_rename failed: {r.stdout[-300:]} {r.stderr[-300:]}"]
        r = subprocess.run([sys.executable, str(VERIF / "tools" / "alpha_rename_j2.py"), str(tmp / "tree"), "--keep-tree"], capture_output=True, text=True, timeout=300)
        if r.returncode != 0 or "alpha-renamed" not in r.stdout:
            return [f"alpha_rename_j2 failed: {r.stdout[-300:]} {r.stderr[-300:]}"]
        all_props = [p.stem for p in sorted((VERIF / "checks").glob("C[0-9][0-9].py"))]
        wanted = [p for p in all_props if not props or p in props]
        problems = []

        def one(prop):
            out = []
            counts = {}
            for label, root in (("tree", REPO), ("alpha", tmp / "tree")):
                ev = tmp / f"ev-{label}"
                rr = subprocess.run([sys.executable, str(VERIF / "check"), prop, "--root", str(root), "--evidence-dir", str(ev)],
                                    capture_output=True, text=True, timeout=900)
                if label == "alpha" and rr.returncode != 0:
                    lines = [ln for ln in (rr.stdout + rr.stderr).splitlines() if "violated" in ln or "ANALYSIS" in ln]
                    out.append(f"{prop}: alarm on the alpha-renamed tree (rc={rr.returncode}): " + " | ".join(x.strip()[:200] for x in lines[:3]))
                try:
                    d = json.loads((ev / f"{prop}.json").read_text())
                    counts[label] = {k: v["obligations"] for k, v in d["coverage"]["rules"].items()}
                except Exception:
                    counts[label] = None
            if counts.get("tree") != counts.get("alpha"):
                out.append(f"{prop}: rule instance counts differ between the tree and its alpha-renamed copy: {counts}")
            return out

        with ThreadPoolExecutor(max_workers=16) as ex:
            for res in ex.map(one, wanted):
                problems.extend(res)
        return problems
    finally:
        shutil.rmtree(tmp, ignore_errors=True)


def main(props, jobs=16):
    t0 = time.time()
    sys.path.insert(0, str(VERIF))
    vs = load_variants(props)
    if not vs:
        print("no variants")
        return 2
    results = []
    with ThreadPoolExecutor(max_workers=jobs) as ex:
        for v, st, msg in ex.map(run_variant, vs):
            results.append((v, st, msg))
            mark = {"OK": "ok  ", "FAIL": "FAIL", "SETUP": "SETUP"}[st]
            print(f"{mark} {v['property']} {v['kind']:6s} {v['id']}: {msg if st != 'OK' else msg}")
    bad = [r for r in results if r[1] != "OK"]
    alpha = alpha_control(props)
    for a in alpha:
        print(f"FAIL alpha-rename control: {a}")
    eqv = tree_control(props, "equiv-rewrite", [[str(VERIF / "tools" / "equiv_rewrite.py"), "{tree}"]])
    for a in eqv:
        print(f"FAIL equiv-rewrite control: {a}")
    if not eqv:
        print("ok   equiv-rewrite control: all checks silent on the tree with comparisons mirrored, if/else inverted and modules re-emitted by ast.unparse; instance counts identical")
    j2e = env_control(props, "template-if-inversion", {"NVSA_J2_EQUIV": "1"})
    for a in j2e:
        print(f"FAIL template if-inversion control: {a}")
    if not j2e:
        print("ok   template if-inversion control: all checks decide the same with every template `if c A else B` turned into `if not c B else A`")
    alpha = alpha + eqv + j2e
    if not alpha:
        print("ok   alpha-rename control: all checks silent on the tree with every Python local and template-local variable renamed; instance counts identical")
    # rule coverage: every rule id that the checks register has a breaking variant expecting that very id (or is firing today as
    # a listed known finding) - a rule nobody has ever seen fire is not trusted
    uncovered = []
    try:
        known = {k["rule"] for k in json.loads((VERIF / "known_findings.json").read_text()).get("findings", []) if k.get("status") == "known"}
    except Exception:
        known = set()
    expected = {r[0].get("expect") for r in results if r[0]["kind"] == "break" and r[1] == "OK"}
    for pid in sorted({v["property"] for v in vs}):
        try:
            d = json.loads((VERIF / "evidence" / f"{pid}.json").read_text())
            for rule in d["coverage"]["rules"]:
                if rule not in expected and rule not in known:
                    uncovered.append(rule)
        except Exception:
            pass
    for r_ in uncovered:
        print(f"FAIL rule coverage: no breaking variant makes {r_} fire")
    if not uncovered:
        print("ok   rule coverage: every registered rule id has a breaking variant that makes it fire (or fires today as a listed known finding)")
    alpha = alpha + [f"uncovered rule {r_}" for r_ in uncovered]
    nb = sum(1 for r in results if r[0]["kind"] == "break")
    print(f"self-test: {len(results)} variants ({nb} breaking, {len(results) - nb} benign), {len(bad)} failed, {time.time() - t0:.1f}s")
    summary = {
        "variants": len(results),
        "breaking": nb,
        "benign": len(results) - nb,
        "failed": [f"{r[0]['property']}:{r[0]['id']}" for r in bad] + [f"alpha:{a[:80]}" for a in alpha],
        "wall_s": round(time.time() - t0, 1),
    }
    (VERIF / "selftest" / "last_result.json").write_text(json.dumps(summary, indent=1) + "\n")
    return 2 if (bad or alpha) else 0
