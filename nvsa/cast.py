"""
C-AST front-end: expand the C / C++ serialization support template for one point of the language-option lattice with
the repository's own generator (a build step: no DSDL type is involved) and parse the result with clang's JSON AST
dump.  Nothing generated is compiled to an executable or run.
"""
import json
import os
import pathlib
import shutil
import subprocess
import tempfile
import typing

from .report import AnalysisError


def expand_support(root: pathlib.Path, lang: str, opts: typing.Sequence[str], workdir: pathlib.Path) -> pathlib.Path:
    out = workdir / ("o_" + lang + "_" + "_".join(o.strip("-").replace("=", "-") for o in opts).replace("/", "_")[:80])
    env = dict(os.environ, PYTHONPATH=str(pathlib.Path(root) / "src"), PYTHONDONTWRITEBYTECODE="1")
    cmd = ["/venv/bin/python", "-m", "nunavut", "--target-language", lang, "--generate-support", "only", "--outdir", str(out)] + list(opts)
    if lang == "cpp":
        cmd.append("--experimental-languages")
    r = subprocess.run(cmd, capture_output=True, text=True, env=env, cwd=str(workdir), timeout=300)
    if r.returncode != 0:
        raise AnalysisError(f"support header expansion failed for {lang} {opts}: {r.stderr.strip().splitlines()[-1] if r.stderr.strip() else r.returncode}")
    hdr = out / "nunavut" / "support" / ("serialization.h" if lang == "c" else "serialization.hpp")
    if not hdr.exists():
        raise AnalysisError(f"support header not produced for {lang} {opts}")
    return hdr


def clang_ast_c(hdr: pathlib.Path, extra: typing.Sequence[str] = ()) -> dict:
    r = subprocess.run(["clang", "-x", "c", "-std=c11", "-fsyntax-only", *extra, "-Xclang", "-ast-dump=json", str(hdr)], capture_output=True, text=True, timeout=300)
    if r.returncode != 0 or not r.stdout.strip():
        msg = (r.stderr.strip().splitlines() or ["?"])[0]
        raise AnalysisError(f"clang cannot parse {hdr.name}: {msg}")
    return json.loads(r.stdout)


def clang_ast_cpp(hdr: pathlib.Path, std: str = "c++14", extra: typing.Sequence[str] = ()) -> typing.List[dict]:
    r = subprocess.run(["clang++", "-x", "c++", f"-std={std}", "-fsyntax-only", *extra, "-Xclang", "-ast-dump=json", "-Xclang", "-ast-dump-filter=nunavut", str(hdr)],
                       capture_output=True, text=True, timeout=300)
    if r.returncode != 0 or not r.stdout.strip():
        msg = (r.stderr.strip().splitlines() or ["?"])[0]
        raise AnalysisError(f"clang++ cannot parse {hdr.name}: {msg}")
    out = []
    dec = json.JSONDecoder()
    s = r.stdout
    i = 0
    while i < len(s):
        while i < len(s) and s[i] != "{":
            # filter output interleaves "Dumping xyz:" lines
            j = s.find("\n", i)
            if j < 0:
                i = len(s)
                break
            i = j + 1 if s[i] != "{" else i
        if i >= len(s):
            break
        try:
            obj, end = dec.raw_decode(s, i)
        except json.JSONDecodeError:
            break
        out.append(obj)
        i = end
    return out


# ---- AST helpers ------------------------------------------------------------------------------------------------------
def walk(n):
    yield n
    for c in n.get("inner", []) or []:
        yield from walk(c)


def strip_casts(n):
    while n.get("kind") in ("ImplicitCastExpr", "ParenExpr", "CStyleCastExpr", "CXXStaticCastExpr", "CXXFunctionalCastExpr", "ExprWithCleanups",
                            "MaterializeTemporaryExpr", "CXXBindTemporaryExpr", "ConstantExpr") and n.get("inner"):
        n = n["inner"][-1]
    return n


def ref_name(n) -> typing.Optional[str]:
    n = strip_casts(n)
    if n.get("kind") == "DeclRefExpr":
        return n.get("referencedDecl", {}).get("name")
    if n.get("kind") == "MemberExpr":
        return n.get("name")
    return None


def callee_name(call) -> typing.Optional[str]:
    if call.get("kind") not in ("CallExpr", "CXXMemberCallExpr", "CXXOperatorCallExpr"):
        return None
    inner = call.get("inner") or []
    if not inner:
        return None
    return ref_name(inner[0])


def call_args(call):
    return (call.get("inner") or [])[1:]


def refs_in(n) -> typing.Set[str]:
    out = set()
    for x in walk(n):
        if x.get("kind") == "DeclRefExpr":
            nm = x.get("referencedDecl", {}).get("name")
            if nm:
                out.add(nm)
        elif x.get("kind") == "MemberExpr" and x.get("name"):
            out.add(x["name"])
    return out


def functions(ast: dict, prefix: str = "nunavut") -> typing.Dict[str, dict]:
    """name -> FunctionDecl with a body (definitions win over forward declarations)"""
    out = {}
    for n in ast.get("inner", []):
        if n.get("kind") == "FunctionDecl" and n.get("name", "").startswith(prefix):
            has_body = any(i.get("kind") == "CompoundStmt" for i in n.get("inner", []) or [])
            if has_body or n["name"] not in out:
                out[n["name"]] = n
    return out


def body_of(fn) -> typing.Optional[dict]:
    for i in fn.get("inner", []) or []:
        if i.get("kind") == "CompoundStmt":
            return i
    return None


def params_of(fn) -> typing.List[str]:
    return [i.get("name") for i in fn.get("inner", []) or [] if i.get("kind") == "ParmVarDecl"]


def top_level_statements(fn):
    b = body_of(fn)
    return list(b.get("inner", []) or []) if b else []


def neg_int_return(stmt) -> typing.Optional[int]:
    """value of `return -<int literal>` inside stmt (first found)"""
    for x in walk(stmt):
        if x.get("kind") == "ReturnStmt":
            for y in walk(x):
                if y.get("kind") == "UnaryOperator" and y.get("opcode") == "-":
                    z = strip_casts(y["inner"][0])
                    if z.get("kind") == "IntegerLiteral":
                        return -int(z.get("value"))
    return None


# ---- expression terms -------------------------------------------------------------------------------------------------
# A clang expression is reduced to a nested tuple with casts, parentheses and temporaries removed:
#   ('ref', name) ('int', value, ctype) ('bin', op, a, b) ('un', op, a) ('call', callee, args) ('mcall', obj, method, args)
#   ('idx', base, index) ('mem', base, name) ('this',) ('sizeof', what) ('cond', c, a, b) ('ctor', type, args) ('init', items)
#   ('str',) ('other', kind)
_TRANSPARENT = ("ImplicitCastExpr", "ParenExpr", "CStyleCastExpr", "CXXStaticCastExpr", "CXXFunctionalCastExpr", "ExprWithCleanups",
                "MaterializeTemporaryExpr", "CXXBindTemporaryExpr", "ConstantExpr", "CXXReinterpretCastExpr", "CXXConstCastExpr")


def _short_type(t: str) -> str:
    return (t or "").replace("nunavut::support::", "").replace("detail::", "").replace("std::", "")


def term(n) -> tuple:
    k = n.get("kind")
    inner = [i for i in (n.get("inner") or []) if i.get("kind") != "CXXDefaultArgExpr"]
    if k in _TRANSPARENT and inner:
        return term(inner[-1])
    if k == "DeclRefExpr":
        return ("ref", n.get("referencedDecl", {}).get("name"))
    if k in ("UnresolvedLookupExpr", "UnresolvedMemberExpr"):
        return ("ref", n.get("name"))
    if k == "IntegerLiteral":
        return ("int", int(n.get("value")), n.get("type", {}).get("qualType", ""))
    if k == "CXXBoolLiteralExpr":
        return ("int", 1 if n.get("value") else 0, "bool")
    if k in ("BinaryOperator", "CompoundAssignOperator"):
        return ("bin", n.get("opcode"), term(inner[0]), term(inner[1]))
    if k == "UnaryOperator":
        return ("un", n.get("opcode") + ("post" if n.get("isPostfix") and n.get("opcode") in ("++", "--") else ""), term(inner[0]))
    if k == "ConditionalOperator":
        return ("cond", term(inner[0]), term(inner[1]), term(inner[2]))
    if k == "ArraySubscriptExpr":
        return ("idx", term(inner[0]), term(inner[1]))
    if k == "CXXThisExpr":
        return ("this",)
    if k == "MemberExpr":
        base = term(inner[0]) if inner else ("this",)
        if base == ("this",) or base == ("un", "*", ("this",)):
            return ("ref", n.get("name"))
        return ("mem", base, n.get("name"))
    if k == "CXXDependentScopeMemberExpr":
        base = term(inner[0]) if inner else ("this",)
        return ("mem", base, n.get("member"))
    if k == "CallExpr":
        callee = term(inner[0]) if inner else ("other", "?")
        if callee[0] == "mem":
            return ("mcall", callee[1], callee[2], tuple(term(a) for a in inner[1:]))
        name = callee[1] if callee[0] == "ref" else show(callee)
        return ("call", name, tuple(term(a) for a in inner[1:]))
    if k == "CXXMemberCallExpr":
        m = inner[0]
        while m.get("kind") in _TRANSPARENT and m.get("inner"):
            m = m["inner"][-1]
        mi = m.get("inner") or []
        obj = term(mi[0]) if mi else ("this",)
        mname = m.get("name", "?")
        if mname.startswith("operator "):  # conversion operator: transparent
            return obj
        return ("mcall", obj, mname, tuple(term(a) for a in inner[1:]))
    if k == "CXXOperatorCallExpr":
        op = term(inner[0])
        opname = (op[1] if op[0] == "ref" else "?").replace("operator", "")
        args = [term(a) for a in inner[1:]]
        if opname == "[]" and len(args) == 2:
            return ("idx", args[0], args[1])
        if len(args) == 1:
            return ("un", opname, args[0])
        if len(args) == 2:
            return ("bin", opname, args[0], args[1])
        return ("call", "operator" + opname, tuple(args))
    if k in ("CXXConstructExpr", "CXXTemporaryObjectExpr"):
        args = tuple(term(a) for a in inner)
        ty = _short_type(n.get("type", {}).get("qualType", ""))
        if len(args) == 1 and k == "CXXConstructExpr" and (n.get("elidable") or args[0][0] in ("ctor",)):
            return args[0]
        return ("ctor", ty, args)
    if k == "InitListExpr":
        return ("init", tuple(term(a) for a in inner))
    if k == "UnaryExprOrTypeTraitExpr":
        if inner:
            return ("sizeof", term(inner[0]))
        return ("sizeof", ("type", n.get("argType", {}).get("qualType", "")))
    if k == "StringLiteral":
        return ("str",)
    if k == "FloatingLiteral":
        return ("float", n.get("value"))
    if k in ("CXXNullPtrLiteralExpr", "GNUNullExpr"):
        return ("int", 0, "nullptr")
    return ("other", k)


_PREC = {"*": 12, "/": 12, "%": 12, "+": 11, "-": 11, "<<": 10, ">>": 10, "<": 9, "<=": 9, ">": 9, ">=": 9, "==": 8, "!=": 8, "&": 7, "^": 6, "|": 5,
         "&&": 4, "||": 3}


def show(t, outer: int = 0) -> str:
    k = t[0]
    if k == "ref":
        return str(t[1])
    if k == "int":
        return str(t[1])
    if k == "bin":
        p = _PREC.get(t[1], 1)
        s = f"{show(t[2], p)}{t[1]}{show(t[3], p + 1)}"
        return f"({s})" if p < outer else s
    if k == "un":
        if t[1].endswith("post"):
            return f"{show(t[2], 14)}{t[1][:-4]}"
        return f"{t[1]}{' ' if t[1] == 'return' else ''}{show(t[2], 14 if t[1] != 'return' else 0)}"
    if k == "call":
        return f"{t[1]}({','.join(show(a) for a in t[2])})"
    if k == "mcall":
        o = "" if t[1] == ("this",) else show(t[1], 15) + "."
        return f"{o}{t[2]}({','.join(show(a) for a in t[3])})"
    if k == "idx":
        return f"{show(t[1], 15)}[{show(t[2])}]"
    if k == "mem":
        return f"{show(t[1], 15)}.{t[2]}"
    if k == "this":
        return "this"
    if k == "sizeof":
        return f"sizeof({show(t[1]) if t[1][0] != 'type' else t[1][1]})"
    if k == "cond":
        s = f"{show(t[1], 3)}?{show(t[2], 3)}:{show(t[3], 3)}"
        return f"({s})" if outer > 2 else s
    if k == "ctor":
        return f"{t[1]}{{{','.join(show(a) for a in t[2])}}}"
    if k == "init":
        return "{" + ",".join(show(a) for a in t[1]) + "}"
    if k == "type":
        return t[1]
    return f"<{t[-1]}>"


def subterms(t):
    yield t
    for x in t[1:]:
        if isinstance(x, tuple):
            if x and isinstance(x[0], str):
                yield from subterms(x)
            else:
                for y in x:
                    if isinstance(y, tuple):
                        yield from subterms(y)


def term_refs(t) -> typing.Set[str]:
    return {x[1] for x in subterms(t) if x[0] == "ref"}


def substitute(t, env: typing.Dict[str, tuple], depth: int = 0):
    """inline single-assignment locals (env: name -> defining term)"""
    if depth > 12:
        return t
    if t[0] == "ref" and t[1] in env:
        return substitute(env[t[1]], env, depth + 1)
    out = []
    for x in t:
        if isinstance(x, tuple):
            if x and isinstance(x[0], str):
                out.append(substitute(x, env, depth))
            else:
                out.append(tuple(substitute(y, env, depth) if isinstance(y, tuple) else y for y in x))
        else:
            out.append(x)
    return tuple(out)


# ---- statement view ---------------------------------------------------------------------------------------------------
class Stmt(typing.NamedTuple):
    node: dict
    index: int                 # pre-order position inside the function
    guards: tuple              # (('if'|'else'|'while', condition term), ...) enclosing this statement
    top: int                   # index of the enclosing top-level statement of the function body


def statements(fn) -> typing.List[Stmt]:
    out: typing.List[Stmt] = []
    body = body_of(fn)
    if body is None:
        return out

    def visit(n, guards, top):
        k = n.get("kind")
        if k == "CompoundStmt":
            for c in n.get("inner") or []:
                visit(c, guards, top)
            return
        out.append(Stmt(n, len(out), guards, top))
        inner = n.get("inner") or []
        if k == "IfStmt":
            parts = [i for i in inner]
            cond = term(parts[0])
            if len(parts) > 1:
                visit(parts[1], guards + (("if", cond),), top)
            if len(parts) > 2:
                visit(parts[2], guards + (("else", cond),), top)
        elif k == "WhileStmt":
            cond = term(inner[0])
            visit(inner[-1], guards + (("while", cond),), top)
        elif k in ("ForStmt", "DoStmt"):
            visit(inner[-1], guards + (("loop", ("other", k)),), top)

    for i, c in enumerate(body.get("inner") or []):
        visit(c, (), i)
    return out


def local_defs(fn) -> typing.Dict[str, typing.Tuple[typing.Optional[tuple], str, int]]:
    """local name -> (initialiser term or None, declared type, number of later assignments)"""
    out: typing.Dict[str, typing.List] = {}
    for n in walk(body_of(fn) or {}):
        if n.get("kind") == "VarDecl":
            init = [i for i in (n.get("inner") or []) if i.get("kind") not in ("FullComment",)]
            out[n.get("name")] = [term(init[-1]) if init else None, n.get("type", {}).get("qualType", ""), 0]
    for n in walk(body_of(fn) or {}):
        if n.get("kind") in ("BinaryOperator", "CompoundAssignOperator") and (n.get("opcode", "").endswith("=") and n.get("opcode") not in ("==", "!=", "<=", ">=")):
            lhs = term(n["inner"][0])
            if lhs[0] == "ref" and lhs[1] in out:
                out[lhs[1]][2] += 1
        elif n.get("kind") == "UnaryOperator" and n.get("opcode") in ("++", "--"):
            lhs = term(n["inner"][0])
            if lhs[0] == "ref" and lhs[1] in out:
                out[lhs[1]][2] += 1
    return {k: (v[0], v[1], v[2]) for k, v in out.items()}


def const_env(fn) -> typing.Dict[str, tuple]:
    return {k: v[0] for k, v in local_defs(fn).items() if v[0] is not None and v[2] == 0}


def cpp_methods(objs: typing.List[dict]) -> typing.Dict[str, dict]:
    """'Class::method' / 'function' -> decl with a body, for everything inside namespace nunavut::support"""
    ids: typing.Dict[str, str] = {}
    out: typing.Dict[str, dict] = {}

    def collect_ids(n, scope):
        k = n.get("kind")
        if k in ("CXXRecordDecl", "ClassTemplateDecl") and n.get("name"):
            if n.get("id"):
                ids[n["id"]] = n["name"]
            if k == "CXXRecordDecl":
                scope = n["name"]
        for c in n.get("inner") or []:
            collect_ids(c, scope)

    def visit(n, scope):
        k = n.get("kind")
        if k == "CXXRecordDecl" and n.get("name") and n.get("completeDefinition"):
            scope = n["name"]
        if k in ("CXXMethodDecl", "FunctionDecl", "CXXConstructorDecl") and body_of(n) is not None:
            owner = ids.get(n.get("parentDeclContextId"), scope)
            found.append(((owner + "::" if owner else "") + n.get("name", "?"), len(params_of(n)), n))
            return
        if k in ("ClassTemplateSpecializationDecl",):
            return
        for c in n.get("inner") or []:
            visit(c, scope)

    found: typing.List[typing.Tuple[str, int, dict]] = []
    for o in objs:
        collect_ids(o, None)
    for o in objs:
        visit(o, None)
    names = [f[0] for f in found]
    for key, nparams, n in found:
        if names.count(key) > 1:
            key = f"{key}/{nparams}"
        k, i = key, 1
        while k in out:
            i += 1
            k = f"{key}#{i}"
        out[k] = n
    return out


def env_at(stmts: typing.List["Stmt"], index: int, reassigned: typing.Set[str]) -> typing.Dict[str, tuple]:
    """name -> initialiser of the closest preceding declaration (locals that are re-assigned anywhere are left symbolic)"""
    env: typing.Dict[str, tuple] = {}
    for s in stmts:
        if s.index >= index:
            break
        if s.node.get("kind") == "DeclStmt":
            for v in s.node.get("inner") or []:
                if v.get("kind") == "VarDecl" and v.get("name") not in reassigned:
                    init = [i for i in (v.get("inner") or []) if i.get("kind") != "FullComment"]
                    if init:
                        env[v["name"]] = term(init[-1])
                    else:
                        env.pop(v["name"], None)
    return env


def reassigned_locals(fn) -> typing.Set[str]:
    return {k for k, v in local_defs(fn).items() if v[2] > 0} | _multi_assigned(fn)


def _multi_assigned(fn) -> typing.Set[str]:
    out = set()
    for n in walk(body_of(fn) or {}):
        if n.get("kind") in ("BinaryOperator", "CompoundAssignOperator") and n.get("opcode", "").endswith("=") and n.get("opcode") not in ("==", "!=", "<=", ">="):
            lhs = term(n["inner"][0])
            if lhs[0] == "ref":
                out.add(lhs[1])
    return out


def decls_of(s: "Stmt"):
    if s.node.get("kind") != "DeclStmt":
        return
    for v in s.node.get("inner") or []:
        if v.get("kind") == "VarDecl":
            init = [i for i in (v.get("inner") or []) if i.get("kind") != "FullComment"]
            yield v.get("name"), v.get("type", {}).get("qualType", ""), (term(init[-1]) if init else None)


def stmt_term(s: "Stmt") -> typing.Optional[tuple]:
    k = s.node.get("kind")
    if k in ("DeclStmt", "NullStmt"):
        return None
    if k in ("IfStmt", "WhileStmt"):
        return term(s.node["inner"][0])
    if k == "ReturnStmt":
        inner = s.node.get("inner") or []
        return ("un", "return", term(inner[0])) if inner else ("un", "return", ("int", 0, "void"))
    return term(s.node)


def fn_type(fn) -> str:
    return fn.get("type", {}).get("qualType", "")


def param_types(fn) -> typing.List[typing.Tuple[str, str]]:
    return [(i.get("name"), i.get("type", {}).get("qualType", "")) for i in fn.get("inner", []) or [] if i.get("kind") == "ParmVarDecl"]
