"""
Symbolic evaluation of string-building Python expressions.

sym(px, func, expr) -> [Alt]   where Alt = (conds, pieces)
  conds  : tuple of (expression text, polarity) under which this alternative is produced (IfExp tests, if/else of inlined helpers)
  pieces : tuple of ("L", literal text) / ("A", normalised expression text); adjacent literals are merged

Understood: string constants, f-strings, "<lit>".format(positional args), +, conditional expressions, single-assignment and
if/else-assigned locals (pyfront.subst_locals), calls of package functions whose body is assignments followed by returns
(inlined with the parameters bound).  Everything else is an atom.  Two functions that build the same string by different
spellings (format / f-string / helper / hoisted locals) evaluate to the same alternatives.
"""
import ast
import copy
import itertools
import typing

from nvsa import pyfront

Alt = typing.Tuple[typing.Tuple[typing.Tuple[str, bool], ...], typing.Tuple[typing.Tuple[str, str], ...]]


class _Bind(ast.NodeTransformer):
    def __init__(self, env):
        self.env = env

    def visit_Name(self, node):
        if isinstance(node.ctx, ast.Load) and node.id in self.env:
            return copy.deepcopy(self.env[node.id])
        return node


def _merge(pieces):
    out = []
    for k, v in pieces:
        if k == "L" and v == "":
            continue
        if out and k == "L" and out[-1][0] == "L":
            out[-1] = ("L", out[-1][1] + v)
        else:
            out.append((k, v))
    return tuple(out)


def _product(parts: typing.List[typing.List[Alt]]) -> typing.List[Alt]:
    out = []
    for combo in itertools.product(*parts):
        conds = tuple(c for a in combo for c in a[0])
        # drop contradictory combinations
        d = {}
        ok = True
        for e, p in conds:
            if d.setdefault(e, p) != p:
                ok = False
        if ok:
            out.append((tuple(dict.fromkeys(conds)), _merge([x for a in combo for x in a[1]])))
    return out[:64]


def _simple_body(g):
    body = [st for st in g.node.body if not (isinstance(st, ast.Expr) and isinstance(st.value, ast.Constant))]
    for st in ast.walk(ast.Module(body=body, type_ignores=[])):
        if isinstance(st, (ast.For, ast.While, ast.Try, ast.With, ast.Yield, ast.YieldFrom, ast.Global, ast.Nonlocal)):
            return None
    return body


def _stringy(e) -> bool:
    """is `e` certainly a string (so that + means concatenation)?"""
    if isinstance(e, ast.Constant):
        return isinstance(e.value, str)
    if isinstance(e, ast.JoinedStr):
        return True
    if isinstance(e, ast.BinOp) and isinstance(e.op, ast.Add):
        return _stringy(e.left) or _stringy(e.right)
    if isinstance(e, ast.BinOp) and isinstance(e.op, ast.Mult):
        return _stringy(e.left) or _stringy(e.right)          # 'L' * (n > 16)
    if isinstance(e, ast.Call) and isinstance(e.func, ast.Name) and e.func.id in ("str", "repr"):
        return True
    if isinstance(e, ast.Call) and isinstance(e.func, ast.Attribute) and e.func.attr in ("format", "join", "replace", "lower", "upper", "strip") and \
            (isinstance(e.func.value, ast.Constant) or e.func.attr in ("format", "join")):
        return True
    if isinstance(e, ast.IfExp):
        return _stringy(e.body) and _stringy(e.orelse)
    return False


def sym(px, func, expr, depth: int = 3, _bound: typing.Optional[dict] = None) -> typing.List[Alt]:
    if _bound:
        # what the caller knows about a local on its path takes precedence over the flow-insensitive view of the function
        expr = _Bind(_bound).visit(copy.deepcopy(expr))
        if isinstance(expr, ast.Name) and expr.id in _bound:
            expr = copy.deepcopy(_bound[expr.id])
        ast.fix_missing_locations(expr)
    e = pyfront.subst_locals(func.node, expr)
    if _bound:
        e = _Bind(_bound).visit(copy.deepcopy(e))
        if isinstance(e, ast.Name) and e.id in _bound:
            e = copy.deepcopy(_bound[e.id])
        ast.fix_missing_locations(e)
    return _sym(px, func, e, depth, _bound or {})


def _sym(px, func, e, depth, bound) -> typing.List[Alt]:
    if isinstance(e, ast.Constant) and isinstance(e.value, str):
        return [((), _merge([("L", e.value)]))]
    if isinstance(e, ast.JoinedStr):
        parts = []
        for v in e.values:
            if isinstance(v, ast.Constant):
                parts.append([((), (("L", str(v.value)),))])
            elif isinstance(v, ast.FormattedValue) and v.conversion == -1 and v.format_spec is None:
                parts.append(_sym(px, func, v.value, depth, bound))
            else:
                parts.append([((), (("A", ast.unparse(v)),))])
        return _product(parts)
    if isinstance(e, ast.BinOp) and isinstance(e.op, ast.Add) and (_stringy(e.left) or _stringy(e.right)):
        return _product([_sym(px, func, e.left, depth, bound), _sym(px, func, e.right, depth, bound)])
    if isinstance(e, ast.IfExp):
        out = []
        terms_t = tuple(pyfront.guard_terms([(e.test, True)]))
        terms_f = tuple(pyfront.guard_terms([(e.test, False)]))
        for c, p in _sym(px, func, e.body, depth, bound):
            out.append((terms_t + c, p))
        for c, p in _sym(px, func, e.orelse, depth, bound):
            out.append((terms_f + c, p))
        return out
    if isinstance(e, ast.Call) and isinstance(e.func, ast.Attribute) and e.func.attr == "format" and isinstance(e.func.value, ast.Constant) \
            and isinstance(e.func.value.value, str) and not e.keywords:
        segs = e.func.value.value.split("{}")
        if len(segs) == len(e.args) + 1 and not any("{" in x or "}" in x for x in segs):
            parts = []
            for i, sg in enumerate(segs):
                parts.append([((), (("L", sg),))])
                if i < len(e.args):
                    parts.append(_sym(px, func, e.args[i], depth, bound))
            return _product(parts)
    if isinstance(e, ast.Call) and isinstance(e.func, ast.Name) and e.func.id == "str" and len(e.args) == 1 and not e.keywords:
        return _sym(px, func, e.args[0], depth, bound)
    if isinstance(e, ast.Call) and isinstance(e.func, ast.Name) and depth > 0 and not any(isinstance(a, ast.Starred) for a in e.args):
        callees = [g for g in px.resolve_call(func, e, by_name_fallback=False) if g.cls is None and g.outer is None]
        if len(callees) == 1:
            g = callees[0]
            body = _simple_body(g)
            params = [a.arg for a in g.node.args.args]
            if body is not None and len(e.args) + len(e.keywords) <= len(params) and not g.node.args.vararg and not g.node.args.kwarg:
                env = {}
                defaults = g.node.args.defaults
                for i, dv in enumerate(defaults):
                    env[params[len(params) - len(defaults) + i]] = dv
                for name, a in list(zip(params, e.args)) + [(k.arg, k.value) for k in e.keywords if k.arg]:
                    env[name] = a
                if all(p in env for p in params):
                    out = []
                    for st, gd in pyfront.walk_guarded(body):
                        if isinstance(st, ast.Return) and st.value is not None:
                            conds = []
                            for t, pol in gd:
                                tb = _Bind(env).visit(copy.deepcopy(pyfront.subst_locals(g.node, t)))
                                conds += pyfront.guard_terms([(ast.fix_missing_locations(tb), pol)])
                            for c, p in sym(px, g, st.value, depth - 1, env):
                                out.append((tuple(conds) + c, p))
                    if out:
                        return out
    # typing.cast(T, x) is x
    if isinstance(e, ast.Call) and ast.unparse(e.func) in ("typing.cast", "cast") and len(e.args) == 2 and not e.keywords:
        return _sym(px, func, e.args[1], depth, bound)
    # a call of a small module-level helper buried inside an atom (`_name_of(x).replace('.', '_')`): one alternative per return of the helper,
    # with the helper's value (parameters bound, locals spelled out, casts dropped) in place of the call
    if depth > 0:
        for hc in [n for n in ast.walk(e) if n is not e and isinstance(n, ast.Call) and isinstance(n.func, ast.Name) and not n.keywords
                   and not any(isinstance(a_, ast.Starred) for a_ in n.args)]:
            callees = [g for g in px.resolve_call(func, hc, by_name_fallback=False) if g.cls is None and g.outer is None and g.name.startswith("_")]
            if len(callees) != 1:
                continue
            g = callees[0]
            body = _simple_body(g)
            params = [a.arg for a in g.node.args.args]
            if body is None or len(params) != len(hc.args) or g.node.args.vararg or g.node.args.kwarg:
                continue
            env = dict(zip(params, hc.args))
            out = []
            for st, gd in pyfront.walk_guarded(body):
                if isinstance(st, ast.Return) and st.value is not None:
                    conds = []
                    for t, pol in gd:
                        tb = _Bind(env).visit(copy.deepcopy(pyfront.subst_locals(g.node, t)))
                        conds += pyfront.guard_terms([(ast.fix_missing_locations(tb), pol)])
                    val = pyfront.subst_locals(g.node, st.value)
                    while isinstance(val, ast.Call) and ast.unparse(val.func) in ("typing.cast", "cast") and len(val.args) == 2:
                        val = val.args[1]
                    val = _Bind(env).visit(copy.deepcopy(val))

                    class _R2(ast.NodeTransformer):
                        def visit_Call(self, node):
                            if node is hc_copy[0]:
                                return copy.deepcopy(val)
                            return self.generic_visit(node)
                    ec = copy.deepcopy(e)
                    hc_copy = [b for a, b in zip(ast.walk(e), ast.walk(ec)) if a is hc]
                    ec = ast.fix_missing_locations(_R2().visit(ec))
                    for c, p in _sym(px, func, ec, depth - 1, bound):
                        out.append((tuple(conds) + c, p))
            if out:
                return out
    # a conditional buried inside an atom (`(a if c else b).replace(...)`) is lifted: one alternative per branch
    inner = next((n for n in ast.walk(e) if isinstance(n, ast.IfExp)), None)
    if inner is not None and depth > 0:
        out = []
        for branch, pol in ((inner.body, True), (inner.orelse, False)):
            class _R(ast.NodeTransformer):
                def visit_IfExp(self, node):
                    if node is inner_copy[0]:
                        return copy.deepcopy(branch)
                    return self.generic_visit(node)
            ec = copy.deepcopy(e)
            # locate the copy of `inner` by position in a parallel walk
            inner_copy = [b for a, b in zip(ast.walk(e), ast.walk(ec)) if a is inner]
            ec = ast.fix_missing_locations(_R().visit(ec))
            terms = tuple(pyfront.guard_terms([(inner.test, pol)]))
            for c, p in _sym(px, func, ec, depth - 1, bound):
                out.append((terms + c, p))
        return out
    return [((), (("A", ast.unparse(_canon(e))),))]


class _Mirror(ast.NodeTransformer):
    _M = {ast.Lt: ast.Gt, ast.Gt: ast.Lt, ast.LtE: ast.GtE, ast.GtE: ast.LtE, ast.Eq: ast.Eq, ast.NotEq: ast.NotEq}

    def visit_Compare(self, node):
        self.generic_visit(node)
        if len(node.ops) == 1 and isinstance(node.left, ast.Constant) and not isinstance(node.comparators[0], ast.Constant) and type(node.ops[0]) in self._M:
            return ast.copy_location(ast.Compare(left=node.comparators[0], ops=[self._M[type(node.ops[0])]()], comparators=[node.left]), node)
        return node


def _canon(e):
    """one spelling for comparisons inside atoms: the constant on the right (16 < n  ->  n > 16)"""
    return ast.fix_missing_locations(_Mirror().visit(copy.deepcopy(e)))


def render(alt_pieces, param: typing.Optional[str] = None) -> str:
    """pieces -> one string with atoms in {braces}; `param` is abstracted to <T>"""
    import re
    out = []
    for k, v in alt_pieces:
        if k == "L":
            out.append(v)
        else:
            t = v
            if param:
                t = re.sub(rf"(?<![\w.]){re.escape(param)}(?![\w])", "<T>", t)
            out.append("{" + t + "}")
    return "".join(out)
