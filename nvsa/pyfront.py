"""
PY front-end: ast trees of src/nunavut (vendored jinja2/markupsafe excluded unless asked), symbol tables,
class hierarchy, call-site resolution, per-statement guard contexts (enclosing if/else + early exits).
"""
import ast
import copy
import pathlib
import typing

from .report import AnalysisError

EXCLUDE = ("jinja/jinja2", "jinja/markupsafe")


class Func:
    def __init__(self, module: "Module", cls: typing.Optional["Class"], node, outer: typing.Optional["Func"] = None):
        self.module = module
        self.cls = cls
        self.node = node
        self.name = node.name
        self.outer = outer
        if outer is not None:
            self.qual = f"{outer.qual}.<locals>.{node.name}"
        elif cls is not None:
            self.qual = f"{module.name}:{cls.name}.{node.name}"
        else:
            self.qual = f"{module.name}:{node.name}"
        self.decorators = [ast.unparse(d) for d in node.decorator_list]

    @property
    def short(self) -> str:
        return self.qual.split(":", 1)[1]

    def __repr__(self):
        return f"<Func {self.qual}>"


class Class:
    def __init__(self, module: "Module", node: ast.ClassDef):
        self.module = module
        self.node = node
        self.name = node.name
        self.base_exprs = [ast.unparse(b) for b in node.bases]
        self.methods: typing.Dict[str, Func] = {}
        self.bases: typing.List["Class"] = []
        self.subs: typing.List["Class"] = []

    def mro_lookup(self, name: str, _seen=None) -> typing.Optional[Func]:
        _seen = _seen or set()
        if id(self) in _seen:
            return None
        _seen.add(id(self))
        if name in self.methods:
            return self.methods[name]
        for b in self.bases:
            r = b.mro_lookup(name, _seen)
            if r is not None:
                return r
        return None

    def all_subs(self) -> typing.List["Class"]:
        out = []
        for s in self.subs:
            out.append(s)
            out.extend(s.all_subs())
        return out

    def __repr__(self):
        return f"<Class {self.module.name}:{self.name}>"


class Module:
    def __init__(self, name: str, path: pathlib.Path, rel: str, tree: ast.Module, source: str):
        self.name = name
        self.path = path
        self.rel = rel
        self.tree = tree
        self.source = source
        self.funcs: typing.Dict[str, Func] = {}
        self.classes: typing.Dict[str, Class] = {}
        self.imports: typing.Dict[str, str] = {}  # local name -> dotted target (module or module.attr)


class PyIndex:
    def __init__(self, root: pathlib.Path, include_vendored: bool = False):
        self.root = pathlib.Path(root)
        src = self.root / "src"
        pkg = src / "nunavut"
        if not pkg.is_dir():
            raise AnalysisError(f"{pkg} missing")
        self.modules: typing.Dict[str, Module] = {}
        self.all_funcs: typing.List[Func] = []
        self._parents: typing.Dict[int, typing.Dict[int, ast.AST]] = {}
        for p in sorted(pkg.rglob("*.py")):
            relp = p.relative_to(pkg).as_posix()
            if not include_vendored and any(relp.startswith(e) for e in EXCLUDE):
                continue
            parts = list(p.relative_to(src).with_suffix("").parts)
            if parts[-1] == "__init__":
                parts = parts[:-1]
            name = ".".join(parts)
            source = p.read_text(encoding="utf-8")
            try:
                tree = ast.parse(source, filename=str(p))
            except SyntaxError as e:
                raise AnalysisError(f"{p} does not parse: {e}")
            # table-driven step sequences (`for step, handler in ((a, x), (b, y)): ...`) are written out, so that every rule sees the
            # straight-line code such a loop abbreviates (no function of the pinned tree contains one: the view differs only for
            # refactored variants)
            for fn_ in [n_ for n_ in ast.walk(tree) if isinstance(n_, (ast.FunctionDef, ast.AsyncFunctionDef))]:
                if any(isinstance(x_, ast.For) for x_ in ast.walk(fn_)):
                    fn_.body = unroll_literal_loops(fn_).body
                if any(isinstance(x_, ast.For) and isinstance(x_.iter, ast.Name) for x_ in ast.walk(fn_)):
                    fn_.body = expand_accumulated_lists(fn_).body
            m = Module(name, p, p.relative_to(self.root).as_posix(), tree, source)
            self.modules[name] = m
            self._index_module(m)
        self._link_classes()
        self.by_method_name: typing.Dict[str, typing.List[Func]] = {}
        for f in self.all_funcs:
            self.by_method_name.setdefault(f.name, []).append(f)

    # -- indexing ------------------------------------------------------------
    def _index_module(self, m: Module) -> None:
        is_pkg = m.path.name == "__init__.py"
        pkg_parts = m.name.split(".") if is_pkg else m.name.split(".")[:-1]

        def add_import(node):
            if isinstance(node, ast.Import):
                for a in node.names:
                    m.imports[a.asname or a.name.split(".")[0]] = a.name if a.asname else a.name.split(".")[0]
            elif isinstance(node, ast.ImportFrom):
                if node.level:
                    base = pkg_parts[: len(pkg_parts) - (node.level - 1)]
                    mod = ".".join(base + (node.module.split(".") if node.module else []))
                else:
                    mod = node.module or ""
                for a in node.names:
                    m.imports[a.asname or a.name] = f"{mod}.{a.name}"

        for node in ast.walk(m.tree):
            if isinstance(node, (ast.Import, ast.ImportFrom)):
                add_import(node)

        def visit_body(body, cls: typing.Optional[Class], outer: typing.Optional[Func]):
            for node in body:
                if isinstance(node, (ast.FunctionDef, ast.AsyncFunctionDef)):
                    f = Func(m, cls, node, outer)
                    self.all_funcs.append(f)
                    if outer is None:
                        if cls is not None:
                            # property setter/getter pairs share a name: keep first, store others with suffix
                            key = node.name
                            if key in cls.methods:
                                key = f"{node.name}@{len([k for k in cls.methods if k.split('@')[0] == node.name])}"
                            cls.methods[key] = f
                        else:
                            m.funcs[node.name] = f
                    visit_body(node.body, None, f)
                elif isinstance(node, ast.ClassDef):
                    if outer is None and cls is None:
                        c = Class(m, node)
                        m.classes[node.name] = c
                        visit_body(node.body, c, None)
                    else:
                        visit_body(node.body, None, outer)
                elif isinstance(node, (ast.If, ast.Try, ast.With, ast.For, ast.While)):
                    for fld in ("body", "orelse", "finalbody"):
                        visit_body(getattr(node, fld, []) or [], cls, outer)
                    for h in getattr(node, "handlers", []) or []:
                        visit_body(h.body, cls, outer)

        visit_body(m.tree.body, None, None)

    def _link_classes(self) -> None:
        for m in self.modules.values():
            for c in m.classes.values():
                for b in c.base_exprs:
                    t = self.resolve_class(m, b)
                    if t is not None:
                        c.bases.append(t)
                        t.subs.append(c)

    # -- resolution ------------------------------------------------------------
    def module(self, name: str) -> Module:
        if name not in self.modules:
            raise AnalysisError(f"anchor missing: module {name}")
        return self.modules[name]

    def cls(self, module: str, name: str) -> Class:
        m = self.module(module)
        if name not in m.classes:
            raise AnalysisError(f"anchor missing: class {name} in {module}")
        return m.classes[name]

    def func(self, module: str, qual: str) -> Func:
        m = self.module(module)
        if "." in qual:
            c, f = qual.split(".", 1)
            if c not in m.classes or f not in m.classes[c].methods:
                raise AnalysisError(f"anchor missing: {module}:{qual}")
            return m.classes[c].methods[f]
        if qual not in m.funcs:
            raise AnalysisError(f"anchor missing: {module}:{qual}")
        return m.funcs[qual]

    def _resolve_dotted(self, dotted: str):
        """dotted 'pkg.mod.attr' -> Module | Class | Func | None (follows re-exports one level deep, 4 hops max)."""
        for _ in range(4):
            if dotted in self.modules:
                return self.modules[dotted]
            if "." not in dotted:
                return None
            modname, attr = dotted.rsplit(".", 1)
            mod = self.modules.get(modname)
            if mod is None:
                # maybe pkg.mod.Class.attr
                return None
            if attr in mod.classes:
                return mod.classes[attr]
            if attr in mod.funcs:
                return mod.funcs[attr]
            if attr in mod.imports:
                dotted = mod.imports[attr]
                continue
            return None
        return None

    def resolve_name(self, m: Module, expr: str):
        """Resolve a dotted expression as written in module m to Module/Class/Func/None."""
        parts = expr.split(".")
        head = parts[0]
        if head in m.classes and len(parts) == 1:
            return m.classes[head]
        if head in m.funcs and len(parts) == 1:
            return m.funcs[head]
        if head in m.classes and len(parts) == 2:
            return m.classes[head].mro_lookup(parts[1])
        if head in m.imports:
            target = m.imports[head]
            obj = self._resolve_dotted(target)
            rest = parts[1:]
            # walk the rest
            cur_dotted = target
            for i, p in enumerate(rest):
                if isinstance(obj, Module):
                    cur_dotted = f"{obj.name}.{p}"
                    obj = self._resolve_dotted(cur_dotted)
                elif isinstance(obj, Class):
                    obj = obj.mro_lookup(p)
                else:
                    if obj is None and i == 0:
                        # 'import nunavut._postprocessors' style: head maps to top package
                        cur_dotted = f"{cur_dotted}.{p}"
                        obj = self._resolve_dotted(cur_dotted)
                        continue
                    return None
            return obj
        # fully dotted absolute reference like nunavut._postprocessors.LinePostProcessor
        obj = self._resolve_dotted(expr)
        return obj

    def resolve_class(self, m: Module, expr: str) -> typing.Optional[Class]:
        r = self.resolve_name(m, expr)
        return r if isinstance(r, Class) else None

    def resolve_call(self, f: Func, call: ast.Call, by_name_fallback: bool = True) -> typing.List[Func]:
        """Possible callees (package-internal) of a call expression inside function f."""
        fn = call.func
        out: typing.List[Func] = []
        owner = f
        while owner.outer is not None:
            owner = owner.outer
        cls = owner.cls
        m = f.module
        if isinstance(fn, ast.Name):
            # local nested function?
            for n in ast.walk(owner.node):
                if isinstance(n, (ast.FunctionDef, ast.AsyncFunctionDef)) and n.name == fn.id and n is not owner.node:
                    for g in self.all_funcs:
                        if g.node is n:
                            return [g]
            r = self.resolve_name(m, fn.id)
            if isinstance(r, Func):
                return [r]
            if isinstance(r, Class):
                init = r.mro_lookup("__init__")
                return [init] if init else []
            return []
        if isinstance(fn, ast.Attribute):
            recv = fn.value
            meth = fn.attr
            if isinstance(recv, ast.Name) and recv.id in ("self", "cls") and cls is not None:
                name = meth
                # name-mangled private
                r = cls.mro_lookup(name)
                cands = [r] if r else []
                for s in cls.all_subs():
                    if name in s.methods:
                        cands.append(s.methods[name])
                if cands:
                    return cands
            if (
                isinstance(recv, ast.Call)
                and isinstance(recv.func, ast.Name)
                and recv.func.id == "super"
                and cls is not None
            ):
                for b in cls.bases:
                    r = b.mro_lookup(meth)
                    if r:
                        return [r]
                return []
            try:
                dotted = ast.unparse(fn)
            except Exception:
                dotted = ""
            if dotted and all(p.isidentifier() for p in dotted.split(".")):
                r = self.resolve_name(m, dotted)
                if isinstance(r, Func):
                    return [r]
                if isinstance(r, Class):
                    init = r.mro_lookup("__init__")
                    return [init] if init else []
            if by_name_fallback:
                # unknown receiver: every package method of that name (conservative, name-based)
                return [g for g in self.by_method_name.get(meth, []) if g.cls is not None]
        return out

    # -- helpers ---------------------------------------------------------------
    def calls_in(self, f: Func, include_nested: bool = True) -> typing.List[ast.Call]:
        out = []

        def rec(node):
            for c in ast.iter_child_nodes(node):
                if not include_nested and isinstance(c, (ast.FunctionDef, ast.AsyncFunctionDef, ast.Lambda)):
                    continue
                if isinstance(c, ast.Call):
                    out.append(c)
                rec(c)

        rec(f.node)
        return out


# ---------------------------------------------------------------------------
# guard contexts for Python statements
# ---------------------------------------------------------------------------
def _always_exits(body: typing.List[ast.stmt]) -> bool:
    """True when the statement list cannot fall through (ends in return/raise/continue/break on every path)."""
    if not body:
        return False
    last = body[-1]
    if isinstance(last, (ast.Return, ast.Raise, ast.Continue, ast.Break)):
        return True
    if isinstance(last, ast.If):
        return _always_exits(last.body) and _always_exits(last.orelse)
    if isinstance(last, ast.With):
        return _always_exits(last.body)
    return False


Guard = typing.Tuple[ast.AST, bool]  # (test expression, polarity)


def walk_guarded(body: typing.List[ast.stmt], guards: typing.Tuple[Guard, ...] = (), descend_funcs: bool = False):
    """Yield (stmt, guards) for every statement reachable in `body`, recursively.
    guards = conjunction of (test, polarity) that must hold for the statement to execute:
    enclosing if/else/while tests and negations of earlier `if c: <always exits>` tests in the same block."""
    g = guards
    for st in body:
        yield st, g
        if isinstance(st, ast.If):
            yield from walk_guarded(st.body, g + ((st.test, True),), descend_funcs)
            yield from walk_guarded(st.orelse, g + ((st.test, False),), descend_funcs)
            if _always_exits(st.body) and not _always_exits(st.orelse):
                g = g + ((st.test, False),)
            elif st.orelse and _always_exits(st.orelse) and not _always_exits(st.body):
                g = g + ((st.test, True),)
        elif isinstance(st, (ast.For, ast.AsyncFor)):
            yield from walk_guarded(st.body, g, descend_funcs)
            yield from walk_guarded(st.orelse, g, descend_funcs)
        elif isinstance(st, ast.While):
            yield from walk_guarded(st.body, g + ((st.test, True),), descend_funcs)
            yield from walk_guarded(st.orelse, g, descend_funcs)
        elif isinstance(st, (ast.With, ast.AsyncWith)):
            yield from walk_guarded(st.body, g, descend_funcs)
        elif isinstance(st, ast.Try):
            yield from walk_guarded(st.body, g, descend_funcs)
            for h in st.handlers:
                yield from walk_guarded(h.body, g, descend_funcs)
            yield from walk_guarded(st.orelse, g, descend_funcs)
            yield from walk_guarded(st.finalbody, g, descend_funcs)
        elif descend_funcs and isinstance(st, (ast.FunctionDef, ast.AsyncFunctionDef)):
            yield from walk_guarded(st.body, g, descend_funcs)
        elif hasattr(ast, "Match") and isinstance(st, ast.Match):
            for c in st.cases:
                yield from walk_guarded(c.body, g, descend_funcs)


def guard_terms(guards: typing.Sequence[Guard]) -> typing.List[typing.Tuple[str, bool]]:
    """Atomic facts implied by a guard conjunction: (unparsed expr, polarity)."""
    out = []

    def rec(test, pol):
        if isinstance(test, ast.UnaryOp) and isinstance(test.op, ast.Not):
            rec(test.operand, not pol)
        elif isinstance(test, ast.BoolOp) and isinstance(test.op, ast.And) and pol:
            for v in test.values:
                rec(v, True)
        elif isinstance(test, ast.BoolOp) and isinstance(test.op, ast.Or) and not pol:
            for v in test.values:
                rec(v, False)
        else:
            out.append((ast.unparse(test), pol))

    for t, p in guards:
        rec(t, p)
    return out


def expr_calls(st: ast.AST, skip_nested_defs: bool = True) -> typing.List[ast.Call]:
    """Call nodes syntactically inside one statement, not descending into nested statement bodies."""
    out = []

    def rec(n, top):
        for c in ast.iter_child_nodes(n):
            if isinstance(c, ast.stmt) and not top:
                continue
            if isinstance(c, ast.stmt):
                # children statements of a compound statement are visited by walk_guarded separately
                continue
            if skip_nested_defs and isinstance(c, ast.Lambda):
                pass
            if isinstance(c, ast.Call):
                out.append(c)
            rec(c, False)

    # header expressions only
    if isinstance(st, (ast.If, ast.While)):
        hdr = [st.test]
    elif isinstance(st, (ast.For, ast.AsyncFor)):
        hdr = [st.iter, st.target]
    elif isinstance(st, (ast.With, ast.AsyncWith)):
        hdr = [i.context_expr for i in st.items]
    elif isinstance(st, ast.Try):
        hdr = []
    elif isinstance(st, (ast.FunctionDef, ast.AsyncFunctionDef, ast.ClassDef)):
        hdr = list(st.decorator_list)
    else:
        hdr = [st]
    for h in hdr:
        if isinstance(h, ast.Call):
            out.append(h)
        rec(h, False)
    return out


def line_of(node) -> typing.Optional[int]:
    return getattr(node, "lineno", None)


def norm(node) -> str:
    """Normalised statement/expression text (format independent)."""
    return ast.unparse(node)


def parent_map(tree) -> typing.Dict[int, ast.AST]:
    pm: typing.Dict[int, ast.AST] = {}
    for n in ast.walk(tree):
        for c in ast.iter_child_nodes(n):
            pm[id(c)] = n
    return pm


def enclosing_stmt(node, pm) -> typing.Optional[ast.stmt]:
    cur = node
    while cur is not None and not isinstance(cur, ast.stmt):
        cur = pm.get(id(cur))
    return cur


def guards_of(func_node, target, pm=None) -> typing.Optional[typing.Tuple[Guard, ...]]:
    """Guard conjunction under which the statement containing `target` executes inside func_node
    (None if target is not inside).  Nested function bodies are descended into."""
    pm = pm or parent_map(func_node)
    st = enclosing_stmt(target, pm)
    body = func_node.body if hasattr(func_node, "body") else []
    for s, g in walk_guarded(body, (), descend_funcs=True):
        if s is st:
            # inside a compound statement header?  (e.g. the test of an `if`): guards are those of the stmt
            extra: typing.Tuple[Guard, ...] = ()
            # conditional expressions / boolean short-circuit inside the statement
            cur = target
            par = pm.get(id(cur))
            while par is not None and par is not st:
                if isinstance(par, ast.IfExp):
                    if cur is par.body:
                        extra += ((par.test, True),)
                    elif cur is par.orelse:
                        extra += ((par.test, False),)
                elif isinstance(par, ast.BoolOp):
                    idx = next((i for i, v in enumerate(par.values) if v is cur), 0)
                    for v in par.values[:idx]:
                        extra += ((v, isinstance(par.op, ast.And)),)
                cur, par = par, pm.get(id(par))
            return g + extra
    return None


# ---------------------------------------------------------------------------
# syntactic dominance inside one function
# ---------------------------------------------------------------------------
def _blocks_of(st: ast.stmt) -> typing.List[typing.Tuple[str, typing.List[ast.stmt]]]:
    out = []
    for fld in ("body", "orelse", "finalbody"):
        b = getattr(st, fld, None)
        if isinstance(b, list) and b and isinstance(b[0], ast.stmt):
            out.append((fld, b))
    for h in getattr(st, "handlers", []) or []:
        out.append(("handler", h.body))
    if hasattr(ast, "Match") and isinstance(st, ast.Match):
        for c in st.cases:
            out.append(("case", c.body))
    return out


def dominating_stmts(func_node, target_stmt: ast.stmt) -> typing.Optional[typing.List[ast.stmt]]:
    """Statements that execute before `target_stmt` on every path from function entry (syntactic, conservative):
    for each block on the ancestor chain, the statements preceding the ancestor in that block; a preceding `with`
    contributes its body recursively (it always runs), a preceding `try` contributes nothing from inside (may abort),
    other compound statements contribute only themselves (their header).  Returns None if target is not in func."""

    def flat(st) -> typing.List[ast.stmt]:
        out = [st]
        if isinstance(st, (ast.With, ast.AsyncWith)):
            for s in st.body:
                out.extend(flat(s))
        return out

    def search(block, acc):
        for i, st in enumerate(block):
            if st is target_stmt:
                return acc
            if isinstance(st, (ast.FunctionDef, ast.AsyncFunctionDef, ast.ClassDef)):
                # nested definitions: body does not run here
                acc = acc + [st]
                continue
            for kind, b in _blocks_of(st):
                inner_acc = acc + ([st] if kind in ("body", "orelse", "handler", "case", "finalbody") else [])
                if isinstance(st, (ast.With, ast.AsyncWith)):
                    inner_acc = acc + [st]
                r = search(b, inner_acc)
                if r is not None:
                    return r
            acc = acc + flat(st)
        return None

    return search(func_node.body, [])


def stmts_after(func_node, target_stmt: ast.stmt) -> typing.List[ast.stmt]:
    """Statements that follow `target_stmt` in its own block and in enclosing blocks (what runs after it completes)."""
    res: typing.List[ast.stmt] = []

    def search(block):
        for i, st in enumerate(block):
            if st is target_stmt:
                res.extend(block[i + 1:])
                return True
            for _, b in _blocks_of(st):
                if search(b):
                    if not isinstance(st, (ast.For, ast.AsyncFor, ast.While)):
                        res.extend(block[i + 1:])
                    else:
                        res.extend(block[i + 1:])
                    return True
        return False

    search(func_node.body)
    return res


# ---------------------------------------------------------------------------
# path enumeration for small loop-free functions
# ---------------------------------------------------------------------------
class Path:
    __slots__ = ("conds", "stmts", "outcome")

    def __init__(self, conds=(), stmts=(), outcome="fall"):
        self.conds = tuple(conds)  # (expr text, polarity) incl. ("except <Type>", True) for handler entry
        self.stmts = tuple(stmts)  # simple statements executed, in order
        self.outcome = outcome  # 'fall' | 'return' | 'raise'

    def terms(self):
        out = []
        for e, p in self.conds:
            if isinstance(e, str):
                out.append((e, p))
            else:
                out.extend(guard_terms([(e, p)]))
        return out


def enumerate_paths(body: typing.List[ast.stmt], limit: int = 512) -> typing.List[Path]:
    """All control-flow paths through a loop-free statement list (if/else, try/except, with).  Loops are treated as
    executing their body zero or one time.  Raises ValueError beyond `limit` paths."""

    def run(stmts, prefix: typing.List[Path]) -> typing.List[Path]:
        cur = prefix
        for st in stmts:
            live = [p for p in cur if p.outcome == "fall"]
            done = [p for p in cur if p.outcome != "fall"]
            if not live:
                return done
            nxt: typing.List[Path] = []
            if isinstance(st, ast.If):
                for p in live:
                    a = run(st.body, [Path(p.conds + ((st.test, True),), p.stmts + (st,), "fall")])
                    b = run(st.orelse, [Path(p.conds + ((st.test, False),), p.stmts + (st,), "fall")])
                    nxt.extend(a + b)
            elif isinstance(st, ast.Try):
                for p in live:
                    ok = run(st.body + st.orelse, [Path(p.conds, p.stmts, "fall")])
                    res = list(ok)
                    for h in st.handlers:
                        hname = "except " + (ast.unparse(h.type) if h.type is not None else "BaseException")
                        res.extend(run(h.body, [Path(p.conds + ((hname, True),), p.stmts, "fall")]))
                    if st.finalbody:
                        res = [q for r in res for q in (run(st.finalbody, [Path(r.conds, r.stmts, "fall")]) if r.outcome == "fall" else [r])]
                    nxt.extend(res)
            elif isinstance(st, (ast.With, ast.AsyncWith)):
                for p in live:
                    nxt.extend(run(st.body, [Path(p.conds, p.stmts + (st,), "fall")]))
            elif isinstance(st, (ast.For, ast.AsyncFor, ast.While)):
                for p in live:
                    nxt.append(Path(p.conds, p.stmts + (st,), "fall"))
                    nxt.extend(run(st.body, [Path(p.conds, p.stmts + (st,), "fall")]))
            elif isinstance(st, ast.Return):
                nxt.extend(Path(p.conds, p.stmts + (st,), "return") for p in live)
            elif isinstance(st, ast.Raise):
                nxt.extend(Path(p.conds, p.stmts + (st,), "raise") for p in live)
            else:
                nxt.extend(Path(p.conds, p.stmts + (st,), "fall") for p in live)
            cur = done + nxt
            if len(cur) > limit:
                raise ValueError("too many paths")
        return cur

    return run(body, [Path()])


# ---- refactoring-tolerant views -----------------------------------------------------------------------------------------
def private_helpers(px: "PyIndex", f: "Func", depth: int = 1) -> typing.List["Func"]:
    """Private helper functions/methods (`self._x(...)`, `cls._x(...)`, module-level `_x(...)`) that f calls, `depth` levels deep.
    Rules that look for a statement 'in f' accept it in such a helper too: extracting part of a function into a private helper
    of the same class/module is a behaviour-preserving refactoring."""
    out: typing.List[Func] = []
    seen = {id(f)}
    frontier = [f]
    for _ in range(depth):
        nxt = []
        for g in frontier:
            for c in ast.walk(g.node):
                if not isinstance(c, ast.Call):
                    continue
                name = c.func.attr if isinstance(c.func, ast.Attribute) else (c.func.id if isinstance(c.func, ast.Name) else "")
                if not name.startswith("_") or name.startswith("__"):
                    continue
                if isinstance(c.func, ast.Attribute) and not (isinstance(c.func.value, ast.Name) and c.func.value.id in ("self", "cls")):
                    continue
                for h in px.resolve_call(g, c, by_name_fallback=False):
                    if id(h) not in seen and h.module is g.module:
                        seen.add(id(h))
                        out.append(h)
                        nxt.append(h)
        frontier = nxt
    return out


def walk_with_helpers(px: "PyIndex", f: "Func", depth: int = 1):
    """ast.walk over f and over its private helpers"""
    yield from ast.walk(f.node)
    for h in private_helpers(px, f, depth):
        yield from ast.walk(h.node)


def call_keywords(func_node: ast.AST, call: ast.Call) -> typing.Dict[str, ast.AST]:
    """keyword arguments of a call, with `**name` expanded when `name` is a local bound once to a dict display / dict(...) call
    (plus later `name[key] = value` stores)"""
    out = {k.arg: k.value for k in call.keywords if k.arg is not None}
    for k in call.keywords:
        if k.arg is None and isinstance(k.value, ast.Name):
            vals = [n for n in ast.walk(func_node) if isinstance(n, (ast.Assign, ast.AnnAssign)) and
                    any(isinstance(t, ast.Name) and t.id == k.value.id for t in (n.targets if isinstance(n, ast.Assign) else [n.target]))]
            if len(vals) == 1 and vals[0].value is not None:
                v = vals[0].value
                if isinstance(v, ast.Dict):
                    for kk, vv in zip(v.keys, v.values):
                        if isinstance(kk, ast.Constant) and isinstance(kk.value, str):
                            out.setdefault(kk.value, vv)
                elif isinstance(v, ast.Call) and isinstance(v.func, ast.Name) and v.func.id == "dict":
                    for kw in v.keywords:
                        if kw.arg is not None:
                            out.setdefault(kw.arg, kw.value)
            for n in ast.walk(func_node):
                if isinstance(n, ast.Assign) and len(n.targets) == 1 and isinstance(n.targets[0], ast.Subscript) and isinstance(n.targets[0].value, ast.Name) \
                        and n.targets[0].value.id == k.value.id and isinstance(n.targets[0].slice, ast.Constant) and isinstance(n.targets[0].slice.value, str):
                    out.setdefault(n.targets[0].slice.value, n.value)
    return out


def subst_locals(func_node: ast.AST, expr: ast.AST, depth: int = 3) -> ast.AST:
    """copy of `expr` with every local that is assigned exactly once in the function (a plain `name = <expr>` statement, not a
    loop/with target, not augmented) replaced by the expression it was assigned - hoisting a sub-expression into a named local
    then makes no difference to a rule that compares expressions"""
    import copy
    counts: typing.Dict[str, int] = {}
    vals: typing.Dict[str, ast.AST] = {}
    params = set()
    if isinstance(func_node, (ast.FunctionDef, ast.AsyncFunctionDef)):
        a = func_node.args
        params = {x.arg for x in a.posonlyargs + a.args + a.kwonlyargs} | ({a.vararg.arg} if a.vararg else set()) | ({a.kwarg.arg} if a.kwarg else set())
    for n in ast.walk(func_node):
        if isinstance(n, ast.Assign):
            for t in n.targets:
                for x in ast.walk(t):
                    if isinstance(x, ast.Name):
                        counts[x.id] = counts.get(x.id, 0) + 1
                        if isinstance(t, ast.Name) and len(n.targets) == 1:
                            vals[x.id] = n.value
            # `a, b = x, y`: each name is assigned its own element
            if len(n.targets) == 1 and isinstance(n.targets[0], (ast.Tuple, ast.List)) and isinstance(n.value, (ast.Tuple, ast.List)) \
                    and len(n.targets[0].elts) == len(n.value.elts) and not any(isinstance(e_, ast.Starred) for e_ in list(n.targets[0].elts) + list(n.value.elts)):
                for t_, v_ in zip(n.targets[0].elts, n.value.elts):
                    if isinstance(t_, ast.Name) and not any(isinstance(z, ast.Name) and z.id in {q.id for q in n.targets[0].elts if isinstance(q, ast.Name)} for z in ast.walk(v_)):
                        vals[t_.id] = v_
            # `head, _ = s.rsplit(".", 1)` / `a, _, b = s.partition(x)`: each name is its element of the (pure) split
            if len(n.targets) == 1 and isinstance(n.targets[0], (ast.Tuple, ast.List)) and isinstance(n.value, ast.Call) and isinstance(n.value.func, ast.Attribute) \
                    and n.value.func.attr in ("split", "rsplit", "partition", "rpartition") and not any(isinstance(e_, ast.Starred) for e_ in n.targets[0].elts):
                own = {q.id for q in n.targets[0].elts if isinstance(q, ast.Name)}
                if not any(isinstance(z, ast.Name) and z.id in own for z in ast.walk(n.value)):
                    for i_, t_ in enumerate(n.targets[0].elts):
                        if isinstance(t_, ast.Name):
                            vals[t_.id] = ast.Subscript(value=n.value, slice=ast.Constant(i_), ctx=ast.Load())
        elif isinstance(n, (ast.AugAssign, ast.AnnAssign)) and isinstance(n.target, ast.Name):
            counts[n.target.id] = counts.get(n.target.id, 0) + (1 if isinstance(n, ast.AnnAssign) and n.value is not None else 2)
            if isinstance(n, ast.AnnAssign) and n.value is not None:
                vals[n.target.id] = n.value
        elif isinstance(n, (ast.For, ast.AsyncFor, ast.comprehension)):
            for x in ast.walk(n.target):
                if isinstance(x, ast.Name):
                    counts[x.id] = counts.get(x.id, 0) + 2
        elif isinstance(n, (ast.With, ast.AsyncWith)):
            for it in n.items:
                if it.optional_vars is not None:
                    for x in ast.walk(it.optional_vars):
                        if isinstance(x, ast.Name):
                            counts[x.id] = counts.get(x.id, 0) + 2
    # a local whose object is changed in place after it was bound (xs = []; xs.append(..)) is not the expression it was bound to
    mutated = set()
    for n in ast.walk(func_node):
        if isinstance(n, ast.Call) and isinstance(n.func, ast.Attribute) and isinstance(n.func.value, ast.Name) and n.func.attr in (
                "append", "extend", "insert", "add", "update", "clear", "pop", "popitem", "remove", "discard", "setdefault", "sort", "reverse", "appendleft",
                "write", "writelines", "truncate", "seek"):
            mutated.add(n.func.value.id)
        elif isinstance(n, (ast.Assign, ast.AugAssign, ast.Delete)):
            for t in (n.targets if isinstance(n, (ast.Assign, ast.Delete)) else [n.target]):
                if isinstance(t, ast.Subscript) and isinstance(t.value, ast.Name):
                    mutated.add(t.value.id)
    single = {k: v for k, v in vals.items() if counts.get(k) == 1 and k not in params and k not in mutated}
    # `if c: x = A else: x = B` (the only two assignments of x, one per branch of the same if/else, outside loops) is the
    # conditional expression `A if c else B`
    def _one_assign(block, name):
        hits = [st for st in block if isinstance(st, ast.Assign) and len(st.targets) == 1 and isinstance(st.targets[0], ast.Name) and st.targets[0].id == name]
        nested = sum(1 for st in block for x in ast.walk(st) if isinstance(x, ast.Name) and x.id == name and isinstance(x.ctx, ast.Store))
        return hits[0].value if len(hits) == 1 and nested == 1 else None

    in_loop = set()
    for n in ast.walk(func_node):
        if isinstance(n, (ast.For, ast.AsyncFor, ast.While)):
            for x in ast.walk(n):
                in_loop.add(id(x))
    def _chain_value(n, name):
        """(conditional expression, number of assignments) for an if / elif ... / else chain every branch of which assigns `name`
        exactly once, at its top level"""
        if any(isinstance(x, ast.Name) and x.id == name for x in ast.walk(n.test)):
            return None
        a = _one_assign(n.body, name)
        if a is None or not n.orelse:
            return None
        if len(n.orelse) == 1 and isinstance(n.orelse[0], ast.If) and _one_assign(n.orelse, name) is None:
            sub = _chain_value(n.orelse[0], name)
            if sub is None:
                return None
            return ast.IfExp(test=n.test, body=a, orelse=sub[0]), 1 + sub[1]
        b = _one_assign(n.orelse, name)
        if b is None:
            return None
        return ast.IfExp(test=n.test, body=a, orelse=b), 2

    elif_members = {id(n.orelse[0]) for n in ast.walk(func_node) if isinstance(n, ast.If) and len(n.orelse) == 1 and isinstance(n.orelse[0], ast.If)}
    for n in ast.walk(func_node):
        if isinstance(n, ast.If) and n.orelse and id(n) not in in_loop and id(n) not in elif_members:
            for st in n.body:
                if isinstance(st, ast.Assign) and len(st.targets) == 1 and isinstance(st.targets[0], ast.Name):
                    name = st.targets[0].id
                    if name not in params and name not in single and counts.get(name, 0) >= 2:
                        cv = _chain_value(n, name)
                        if cv is not None and cv[1] == counts.get(name):
                            single[name] = cv[0]

    class _S(ast.NodeTransformer):
        def visit_Name(self, node):
            if isinstance(node.ctx, ast.Load) and node.id in single:
                return copy.deepcopy(single[node.id])
            return node

    out = copy.deepcopy(expr)
    for _ in range(depth):
        out = _S().visit(out)
        if isinstance(out, ast.Name) and isinstance(out.ctx, ast.Load) and out.id in single:
            out = copy.deepcopy(single[out.id])
    return ast.fix_missing_locations(out)


def unroll_literal_loops(func_node: ast.AST, max_items: int = 8) -> ast.AST:
    """copy of the function with every `for x in (<literal items>)` / `for a, b in ((..), (..))` loop replaced by one copy of its body per
    item (loop variables substituted by the item's expressions).  The sequence may be held in a local that is assigned once.  Loops
    that leave early (break / continue / else), re-assign their variable or run over anything but a literal are left alone.  A
    table-driven sequence of steps thereby reads like the straight-line code it abbreviates."""
    import copy
    fn = copy.deepcopy(func_node)

    def items_of(loop):
        it = subst_locals(fn, loop.iter)
        if not isinstance(it, (ast.Tuple, ast.List)) or not (0 < len(it.elts) <= max_items) or any(isinstance(e, ast.Starred) for e in it.elts):
            return None
        tg = loop.target
        if isinstance(tg, ast.Name):
            names = [tg.id]
            rows = [[e] for e in it.elts]
        elif isinstance(tg, (ast.Tuple, ast.List)) and all(isinstance(t, ast.Name) for t in tg.elts):
            names = [t.id for t in tg.elts]
            if not all(isinstance(e, (ast.Tuple, ast.List)) and len(e.elts) == len(names) for e in it.elts):
                return None
            rows = [list(e.elts) for e in it.elts]
        else:
            return None
        body_nodes = [x for st in loop.body for x in ast.walk(st)]
        if loop.orelse or any(isinstance(x, (ast.Break, ast.Continue, ast.FunctionDef, ast.Lambda)) for x in body_nodes):
            return None
        if any(isinstance(x, ast.Name) and x.id in names and isinstance(x.ctx, (ast.Store, ast.Del)) for x in body_nodes):
            return None
        return names, rows

    class _U(ast.NodeTransformer):
        def visit_FunctionDef(self, node):
            if node is not fn:
                return node
            self.generic_visit(node)
            return node

        def visit_For(self, node):
            self.generic_visit(node)
            spec = items_of(node)
            if spec is None:
                return node
            names, rows = spec
            out = []
            # locals that live inside the loop body only get one name per copy (they are single-assignment again afterwards)
            stored = {x.id for b_ in node.body for x in ast.walk(b_) if isinstance(x, ast.Name) and isinstance(x.ctx, ast.Store)}
            inside = {id(x) for b_ in node.body for x in ast.walk(b_)}
            outside = {x.id for x in ast.walk(fn) if isinstance(x, ast.Name) and id(x) not in inside}
            private = stored - outside - set(names)
            for k_row, row in enumerate(rows):
                env = dict(zip(names, row))
                env.update({nm: ast.Name(id=f"{nm}__{k_row}", ctx=ast.Load()) for nm in private})

                class _B(ast.NodeTransformer):
                    def visit_Name(self, n):
                        if isinstance(n.ctx, ast.Load) and n.id in env:
                            return copy.deepcopy(env[n.id])
                        if isinstance(n.ctx, ast.Store) and n.id in private:
                            return ast.copy_location(ast.Name(id=f"{n.id}__{k_row}", ctx=ast.Store()), n)
                        return n

                    def visit_Call(self, c):
                        self.generic_visit(c)
                        # getattr(x, "<name>") with the name now a literal is the attribute access it abbreviates
                        if isinstance(c.func, ast.Name) and c.func.id == "getattr" and len(c.args) == 2 and not c.keywords and isinstance(c.args[1], ast.Constant) \
                                and isinstance(c.args[1].value, str) and c.args[1].value.isidentifier():
                            return ast.copy_location(ast.Attribute(value=c.args[0], attr=c.args[1].value, ctx=ast.Load()), c)
                        return c
                for st in node.body:
                    out.append(ast.copy_location(_B().visit(copy.deepcopy(st)), st))
            return out
    res = _U().visit(fn)
    return ast.fix_missing_locations(res)


def function_value_expr(f: ast.FunctionDef) -> typing.Optional[ast.expr]:
    """the value a small pure function returns, as one expression over its parameters: docstring and asserts dropped, single-assigned
    locals substituted, `if c: return a` ... `return b` turned into `a if c else b`; None when the body is anything else (loops, try, ...)"""
    env: typing.Dict[str, ast.expr] = {}

    class B(ast.NodeTransformer):
        def visit_Name(self, node):
            if isinstance(node.ctx, ast.Load) and node.id in env:
                return copy.deepcopy(env[node.id])
            return node

    def seq(stmts):
        for i, st in enumerate(stmts):
            if isinstance(st, ast.Expr) and isinstance(st.value, ast.Constant) or isinstance(st, ast.Assert):
                continue
            if isinstance(st, ast.Assign) and len(st.targets) == 1 and isinstance(st.targets[0], ast.Name):
                env[st.targets[0].id] = B().visit(copy.deepcopy(st.value))
                continue
            if isinstance(st, ast.AnnAssign) and isinstance(st.target, ast.Name) and st.value is not None:
                env[st.target.id] = B().visit(copy.deepcopy(st.value))
                continue
            if isinstance(st, ast.Return) and st.value is not None:
                return B().visit(copy.deepcopy(st.value))
            if isinstance(st, ast.If):
                saved = dict(env)
                a = seq(st.body)
                env.clear()
                env.update(saved)
                b = seq(st.orelse) if st.orelse else None
                env.clear()
                env.update(saved)
                if a is None:
                    return None
                if b is None:
                    b = seq(stmts[i + 1:])
                if b is None:
                    return None
                return ast.IfExp(test=B().visit(copy.deepcopy(st.test)), body=a, orelse=b)
            return None
        return None

    r = seq(f.body)
    return ast.fix_missing_locations(r) if r is not None else None


def inline_value_calls(func_node: ast.FunctionDef, methods: typing.Dict[str, ast.FunctionDef], depth: int = 2) -> ast.FunctionDef:
    """copy of the function in which calls `self._h(a, b)` of private methods that only compute a value (function_value_expr) are
    replaced by that value with the parameters bound - a computation split into value-returning helpers read as one expression"""
    fn = copy.deepcopy(func_node)

    class R(ast.NodeTransformer):
        def __init__(self, d):
            self.d = d

        def visit_Call(self, node):
            self.generic_visit(node)
            if self.d <= 0 or not (isinstance(node.func, ast.Attribute) and isinstance(node.func.value, ast.Name) and node.func.value.id in ("self", "cls")
                                   and node.func.attr in methods and node.func.attr.startswith("_") and not node.keywords
                                   and not any(isinstance(a, ast.Starred) for a in node.args)):
                return node
            h = methods[node.func.attr]
            if h is func_node:
                return node
            ps = [a.arg for a in h.args.args]
            if ps and not any(isinstance(d_, ast.Name) and d_.id == "staticmethod" for d_ in h.decorator_list):
                ps = ps[1:]
            if len(ps) != len(node.args) or h.args.vararg or h.args.kwarg:
                return node
            v = function_value_expr(h)
            if v is None:
                return node
            env = dict(zip(ps, node.args))

            class S(ast.NodeTransformer):
                def visit_Name(self, n_):
                    return copy.deepcopy(env[n_.id]) if isinstance(n_.ctx, ast.Load) and n_.id in env else n_
            out = S().visit(copy.deepcopy(v))
            return R(self.d - 1).visit(ast.copy_location(out, node))

    fn = R(depth).visit(fn)
    return ast.fix_missing_locations(fn)


def _without_early_returns(stmts: typing.List[ast.stmt]) -> typing.Optional[typing.List[ast.stmt]]:
    """a procedure body with bare `return`s turned into structure: `if c: A; return` + rest  ->  `if c: A else: rest`; a trailing
    `return` is dropped; None when a return sits where this cannot be done (inside a loop / try)"""
    out: typing.List[ast.stmt] = []
    for i, st in enumerate(stmts):
        if isinstance(st, ast.Return):
            return out if st.value is None else None
        has_ret = any(isinstance(n, ast.Return) for n in ast.walk(st))
        if not has_ret:
            out.append(st)
            continue
        if isinstance(st, ast.If):
            a, b = _without_early_returns(st.body), _without_early_returns(st.orelse)
            if a is None or b is None:
                return None
            ends_a = bool(st.body) and isinstance(st.body[-1], ast.Return)
            ends_b = bool(st.orelse) and isinstance(st.orelse[-1], ast.Return)
            rest = _without_early_returns(stmts[i + 1:])
            if rest is None:
                return None
            if ends_a and not ends_b:
                return out + [ast.If(test=st.test, body=a or [ast.Pass()], orelse=b + rest)]
            if ends_b and not ends_a:
                return out + [ast.If(test=st.test, body=a + rest if (a + rest) else [ast.Pass()], orelse=b)]
            if ends_a and ends_b:
                return out + [ast.If(test=st.test, body=a or [ast.Pass()], orelse=b)]
            return None
        if isinstance(st, (ast.With, ast.AsyncWith)) and i == len(stmts) - 1:
            inner = _without_early_returns(st.body)
            if inner is None:
                return None
            st2 = copy.copy(st)
            st2.body = inner or [ast.Pass()]
            return out + [st2]
        return None
    return out


def inline_procedures(func_node: ast.FunctionDef, callees: typing.Dict[str, ast.FunctionDef], suffix: str = "__inl",
                      methods: typing.Optional[typing.Dict[str, ast.FunctionDef]] = None, values: bool = False) -> ast.FunctionDef:
    """Statements `helper(a, b)` that call a private module-level procedure (no value returned, no generator, parameters never
    re-bound) are replaced by the procedure's body, parameters spelled as the argument expressions and the procedure's locals renamed
    apart - the code the call abbreviates.  With `values`, `return helper(..)` / `x = helper(..)` of a helper whose only return is its
    last statement is spelled out the same way, the returned expression taking the place of the call.
    Returns a deep copy; anything that does not fit stays a call."""
    fn = copy.deepcopy(func_node)

    def _stmts(h: ast.FunctionDef) -> typing.List[ast.stmt]:
        return [st for st in h.body if not (isinstance(st, ast.Expr) and isinstance(st.value, ast.Constant))]

    def hparams(h: ast.FunctionDef, call: ast.Call) -> typing.List[ast.arg]:
        ps = list(h.args.args)
        if isinstance(call.func, ast.Attribute) and ps and not any(isinstance(d, ast.Name) and d.id == "staticmethod" for d in h.decorator_list):
            ps = ps[1:]          # self / cls is the receiver
        return ps

    def fits(h: ast.FunctionDef, call: ast.Call, as_value: bool = False) -> bool:
        a = h.args
        last = _stmts(h)[-1] if _stmts(h) else None
        if as_value and not (isinstance(last, ast.Return) and last.value is not None):
            return False
        if a.vararg or a.kwarg or a.kwonlyargs or a.posonlyargs or call.keywords or len(call.args) != len(hparams(h, call)) or any(isinstance(x, ast.Starred) for x in call.args):
            return False
        params = {x.arg for x in a.args}
        for n in ast.walk(h):
            if isinstance(n, (ast.Yield, ast.YieldFrom, ast.FunctionDef, ast.AsyncFunctionDef, ast.Lambda, ast.ClassDef, ast.Global, ast.Nonlocal)) and n is not h:
                return False
            if isinstance(n, ast.Return) and n.value is not None and not (as_value and n is last):
                return False
            if isinstance(n, ast.Return) and as_value and n is not last:
                return False
            if isinstance(n, ast.Name) and isinstance(n.ctx, (ast.Store, ast.Del)) and n.id in params:
                return False
        return _without_early_returns(_stmts(h)[:-1] if as_value else _stmts(h)) is not None

    def expand(h: ast.FunctionDef, call: ast.Call, as_value: bool = False):
        env = {p_.arg: a_ for p_, a_ in zip(hparams(h, call), call.args)}
        if isinstance(call.func, ast.Attribute) and len(hparams(h, call)) < len(h.args.args):
            env[h.args.args[0].arg] = call.func.value      # the receiver stands for self / cls
        local = {n.id for n in ast.walk(h) if isinstance(n, ast.Name) and isinstance(n.ctx, ast.Store)}

        class R(ast.NodeTransformer):
            def visit_Name(self, node):
                if node.id in env and isinstance(node.ctx, ast.Load):
                    return copy.deepcopy(env[node.id])
                if node.id in local:
                    return ast.copy_location(ast.Name(id=node.id + suffix, ctx=node.ctx), node)
                return node

        hb = _stmts(copy.deepcopy(h))
        value = None
        if as_value:
            value = R().visit(hb[-1].value)
            hb = hb[:-1]
        body = _without_early_returns(hb) or []
        out = [R().visit(st) for st in body] or ([] if as_value else [ast.Pass()])
        for st in out:
            ast.fix_missing_locations(ast.copy_location(st, call) if not hasattr(st, "lineno") else st)
        for st in out:
            for n in ast.walk(st):
                if hasattr(n, "lineno"):
                    n.lineno = call.lineno
                    n.end_lineno = call.lineno
        if as_value:
            return out, ast.copy_location(value, call)
        return out

    def block(stmts: typing.List[ast.stmt], depth: int) -> typing.List[ast.stmt]:
        out: typing.List[ast.stmt] = []
        for st in stmts:
            for fld in ("body", "orelse", "finalbody"):
                if isinstance(getattr(st, fld, None), list) and getattr(st, fld) and isinstance(getattr(st, fld)[0], ast.stmt):
                    setattr(st, fld, block(getattr(st, fld), depth))
            for hd in getattr(st, "handlers", []) or []:
                hd.body = block(hd.body, depth)
            c = st.value if isinstance(st, ast.Expr) else None
            as_value = False
            if values and c is None and isinstance(st, (ast.Return, ast.Assign)) and isinstance(st.value, ast.Call) \
                    and (isinstance(st, ast.Return) or (len(st.targets) == 1 and isinstance(st.targets[0], ast.Name))):
                c, as_value = st.value, True
            h = None
            if isinstance(c, ast.Call) and isinstance(c.func, ast.Name) and c.func.id in callees and c.func.id.startswith("_"):
                h = callees[c.func.id]
            elif isinstance(c, ast.Call) and methods and isinstance(c.func, ast.Attribute) and isinstance(c.func.value, ast.Name) and c.func.value.id in ("self", "cls") \
                    and c.func.attr in methods and c.func.attr.startswith("_") and not c.func.attr.startswith("__"):
                h = methods[c.func.attr]
            if h is not None and depth < 2 and h is not func_node and as_value and fits(h, c, True):
                pre, value = expand(h, c, True)
                st.value = value
                out += block(pre, depth + 1) + [st]
            elif h is not None and depth < 2 and h is not func_node and not as_value and fits(h, c):
                out += block(expand(h, c), depth + 1)
            else:
                out.append(st)
        return out

    fn.body = block(fn.body, 0)
    ast.fix_missing_locations(fn)
    return fn


def gather_from_helpers(func_node: ast.FunctionDef, methods: typing.Dict[str, ast.FunctionDef], acc: str = "gathered__") -> ast.FunctionDef:
    """A collection builder split into private parts,

        def get(self): return sorted(self._a() | self._b())
        def _a(self):
            if self._x is None: return set()
            return {f(t) for d in self._x.dirs for t in d.glob(p)}

    is written back as one accumulating body (what the parts abbreviate):

        gathered__ = set()
        if self._x is None: pass
        else:
            for d in self._x.dirs:
                for t in d.glob(p): gathered__.add(f(t))
        ...
        return sorted(gathered__)

    Applies only when the function is a single `return <wrappers>(self._h1() <|,+> self._h2() ...)` over argument-less private helper
    methods whose bodies are if/return trees; anything else is returned unchanged (a deep copy)."""
    fn = copy.deepcopy(func_node)
    body = [st for st in fn.body if not (isinstance(st, ast.Expr) and isinstance(st.value, ast.Constant))]
    if len(body) != 1 or not isinstance(body[0], ast.Return) or body[0].value is None:
        return fn
    wrappers = []
    e = body[0].value
    while isinstance(e, ast.Call) and isinstance(e.func, ast.Name) and e.func.id in ("sorted", "list", "set", "tuple", "frozenset") and len(e.args) == 1 and not e.keywords:
        wrappers.append(e.func.id)
        e = e.args[0]

    def parts(x):
        if isinstance(x, ast.BinOp) and isinstance(x.op, (ast.BitOr, ast.Add)):
            l_, r_ = parts(x.left), parts(x.right)
            return None if l_ is None or r_ is None else l_ + r_
        if isinstance(x, ast.Call) and ast.unparse(x.func) in ("itertools.chain", "chain") and x.args and not x.keywords:
            out_ = []
            for a_ in x.args:
                p_ = parts(a_)
                if p_ is None:
                    return None
                out_ += p_
            return out_
        if isinstance(x, ast.Call) and isinstance(x.func, ast.Attribute) and isinstance(x.func.value, ast.Name) and x.func.value.id == "self" \
                and x.func.attr.startswith("_") and not x.args and not x.keywords and x.func.attr in methods:
            return [x.func.attr]
        return None

    hs = parts(e)
    if not hs:
        return fn

    def empty(x):
        return (isinstance(x, ast.Call) and isinstance(x.func, ast.Name) and x.func.id in ("set", "list", "frozenset", "tuple") and not x.args) or \
            (isinstance(x, (ast.List, ast.Tuple, ast.Set)) and not x.elts)

    def pour(x) -> typing.Optional[typing.List[ast.stmt]]:
        if empty(x):
            return [ast.Pass()]
        if isinstance(x, (ast.SetComp, ast.ListComp, ast.GeneratorExp)):
            inner: typing.List[ast.stmt] = [ast.Expr(value=ast.Call(func=ast.Attribute(value=ast.Name(id=acc, ctx=ast.Load()), attr="add", ctx=ast.Load()),
                                                                    args=[x.elt], keywords=[]))]
            for gen in reversed(x.generators):
                for c in reversed(gen.ifs):
                    inner = [ast.If(test=c, body=inner, orelse=[])]
                inner = [ast.For(target=gen.target, iter=gen.iter, body=inner, orelse=[])]
            return inner
        return [ast.AugAssign(target=ast.Name(id=acc, ctx=ast.Store()), op=ast.BitOr(), value=x)]

    def seq(stmts) -> typing.Optional[typing.List[ast.stmt]]:
        out: typing.List[ast.stmt] = []
        for i, st in enumerate(stmts):
            if isinstance(st, ast.Expr) and isinstance(st.value, ast.Constant):
                continue
            if isinstance(st, ast.Return):
                if st.value is None:
                    return None
                p_ = pour(st.value)
                return None if p_ is None else out + p_
            if isinstance(st, ast.If):
                ends = lambda b: bool(b) and isinstance(b[-1], (ast.Return, ast.Raise))   # noqa: E731
                if ends(st.body) and not st.orelse:
                    a = seq(st.body) if isinstance(st.body[-1], ast.Return) else list(st.body)
                    b = seq(stmts[i + 1:])
                    if a is None or b is None:
                        return None
                    return out + [ast.If(test=st.test, body=a, orelse=b)]
                if any(isinstance(n, ast.Return) for n in ast.walk(st)):
                    a, b = seq(st.body), seq(st.orelse)
                    if a is None or b is None:
                        return None
                    rest = seq(stmts[i + 1:]) if not (ends(st.body) and ends(st.orelse)) else []
                    if rest is None:
                        return None
                    return out + [ast.If(test=st.test, body=a, orelse=b)] + rest
                out.append(st)
                continue
            if any(isinstance(n, ast.Return) for n in ast.walk(st)):
                return None
            out.append(st)
        return None      # falls off the end without returning a collection

    def gen_body(h_node) -> typing.Optional[typing.List[ast.stmt]]:
        """a generator part: `yield v` is `acc.add(v)`, `yield from vs` pours vs, a bare early `return` becomes structure"""
        stmts = _without_early_returns([st for st in copy.deepcopy(h_node).body if not (isinstance(st, ast.Expr) and isinstance(st.value, ast.Constant))])
        if stmts is None:
            return None

        class Y(ast.NodeTransformer):
            bad = False

            def visit_Expr(self, node):
                if isinstance(node.value, ast.Yield) and node.value.value is not None:
                    return ast.Expr(value=ast.Call(func=ast.Attribute(value=ast.Name(id=acc, ctx=ast.Load()), attr="add", ctx=ast.Load()), args=[node.value.value], keywords=[]))
                if isinstance(node.value, ast.YieldFrom):
                    p_ = pour(node.value.value)
                    if p_ is None:
                        self.bad = True
                        return node
                    if len(p_) == 1:
                        return p_[0]
                    return ast.If(test=ast.Constant(True), body=p_, orelse=[])
                return self.generic_visit(node)

            def visit_FunctionDef(self, node):
                return node
        y = Y()
        out_ = [y.visit(st) for st in stmts]
        if y.bad or any(isinstance(n_, (ast.Yield, ast.YieldFrom)) for st in out_ for n_ in ast.walk(st)):
            return None
        return out_

    new_body: typing.List[ast.stmt] = [ast.Assign(targets=[ast.Name(id=acc, ctx=ast.Store())], value=ast.Call(func=ast.Name(id="set", ctx=ast.Load()), args=[], keywords=[]))]
    for h in hs:
        if any(isinstance(n_, (ast.Yield, ast.YieldFrom)) for n_ in ast.walk(methods[h])):
            hb = gen_body(methods[h])
        else:
            hb = seq(copy.deepcopy(methods[h]).body)
        if hb is None:
            return copy.deepcopy(func_node)
        new_body += hb
    ret: ast.expr = ast.Name(id=acc, ctx=ast.Load())
    for w in reversed(wrappers):
        ret = ast.Call(func=ast.Name(id=w, ctx=ast.Load()), args=[ret], keywords=[])
    new_body.append(ast.Return(value=ret))
    fn.body = new_body
    ast.fix_missing_locations(fn)
    for n in ast.walk(fn):
        if not hasattr(n, "lineno"):
            pass
    return ast.copy_location(fn, func_node)


def expand_accumulated_lists(func_node: ast.AST) -> ast.AST:
    """copy of the function in which `xs = []; if c1: xs.append(a); if c2: xs.append(b); for x in xs: BODY` reads
    `...; if c1: BODY[x:=a]; if c2: BODY[x:=b]` - a conditionally filled work list applied in a loop is the conditional sequence of calls
    it stands for.  Only for a local list that is initialised empty (or from a literal) in the same block, filled by plain appends of
    expressions whose guards are not re-assigned before the loop, and a loop body that neither mentions the list nor leaves early."""
    import copy
    fn = copy.deepcopy(func_node)

    def try_block(block):
        changed = False
        for idx, st in enumerate(list(block)):
            if not (isinstance(st, ast.For) and isinstance(st.iter, ast.Name) and isinstance(st.target, ast.Name) and not st.orelse):
                continue
            L, v = st.iter.id, st.target.id
            body_nodes = [x for b in st.body for x in ast.walk(b)]
            if any(isinstance(x, (ast.Break, ast.Continue, ast.FunctionDef, ast.Lambda)) for x in body_nodes) or \
                    any(isinstance(x, ast.Name) and x.id == L for x in body_nodes) or \
                    any(isinstance(x, ast.Name) and x.id == v and isinstance(x.ctx, (ast.Store, ast.Del)) for x in body_nodes):
                continue
            before = block[:idx]
            init_i = None
            for i_, b in enumerate(before):
                tg = b.targets[0] if isinstance(b, ast.Assign) and len(b.targets) == 1 else (b.target if isinstance(b, ast.AnnAssign) and b.value is not None else None)
                if isinstance(tg, ast.Name) and tg.id == L:
                    init_i = i_
            if init_i is None:
                continue
            init = before[init_i].value
            if isinstance(init, ast.List):
                items = [(e, ()) for e in init.elts]
            elif isinstance(init, ast.Call) and isinstance(init.func, ast.Name) and init.func.id == "list" and not init.args:
                items = []
            else:
                continue
            ok = True
            assigned_after = {}
            for st2, g in walk_guarded(before[init_i + 1:]):
                uses = [x for x in ast.walk(st2) if isinstance(x, ast.Name) and x.id == L] if not isinstance(st2, (ast.If, ast.For, ast.While, ast.With, ast.Try)) else []
                if uses:
                    c = st2.value if isinstance(st2, ast.Expr) else None
                    if isinstance(c, ast.Call) and isinstance(c.func, ast.Attribute) and c.func.attr == "append" and isinstance(c.func.value, ast.Name) \
                            and c.func.value.id == L and len(c.args) == 1 and len(uses) == 1:
                        items.append((c.args[0], tuple(g)))
                        for t_, _p in g:
                            for nm in ast.walk(t_):
                                if isinstance(nm, ast.Name):
                                    assigned_after.setdefault(nm.id, st2.lineno)
                    else:
                        ok = False
                elif isinstance(st2, (ast.Assign, ast.AugAssign, ast.AnnAssign)):
                    for t_ in ast.walk(st2):
                        if isinstance(t_, ast.Name) and isinstance(t_.ctx, ast.Store) and t_.id in assigned_after and st2.lineno > assigned_after[t_.id]:
                            ok = False
            if any(isinstance(x, (ast.For, ast.While)) and any(isinstance(y, ast.Name) and y.id == L for y in ast.walk(x)) for x in before[init_i + 1:]):
                ok = False       # filled inside a loop: not a fixed sequence
            if not ok or not items:
                continue
            new_stmts = []
            for expr, guards in items:
                class _B(ast.NodeTransformer):
                    def visit_Name(self, n):
                        return copy.deepcopy(expr) if isinstance(n.ctx, ast.Load) and n.id == v else n
                body = [ast.copy_location(_B().visit(copy.deepcopy(b)), b) for b in st.body]
                for t_, pol in reversed(guards):
                    test = copy.deepcopy(t_) if pol else ast.UnaryOp(op=ast.Not(), operand=copy.deepcopy(t_))
                    body = [ast.copy_location(ast.If(test=test, body=body, orelse=[]), st)]
                new_stmts.extend(body)
            block[idx:idx + 1] = new_stmts
            changed = True
            break
        return changed

    def visit(node):
        for field in ("body", "orelse", "finalbody"):
            blk = getattr(node, field, None)
            if isinstance(blk, list) and blk and isinstance(blk[0], ast.stmt):
                while try_block(blk):
                    pass
                for ch in blk:
                    if not isinstance(ch, (ast.FunctionDef, ast.AsyncFunctionDef, ast.ClassDef)):
                        visit(ch)
        for h in getattr(node, "handlers", []) or []:
            visit(h)
    visit(fn)
    return ast.fix_missing_locations(fn)
