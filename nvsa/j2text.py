"""
J2-T: static rendering of a Jinja subtree into the target-language text it can emit, one string per template path.

Every Jinja expression becomes a placeholder identifier (P0, P1, ...) that carries its normalised expression; every
`{% if %}` contributes one path per branch (with the branch condition recorded); `{% for %}` bodies are taken once
(and, optionally, zero times); nested macro calls stay placeholders (they are analysed on their own).
"""
import typing

from . import j2front
from .j2front import xs
from .report import AnalysisError


class TPath:
    __slots__ = ("parts", "conds", "ph", "env", "cnodes")

    def __init__(self, parts=(), conds=(), ph=(), env=(), cnodes=()):
        self.parts = tuple(parts)  # strings
        self.conds = tuple(conds)  # (expr string, polarity)
        self.ph = tuple(ph)  # (placeholder name, expression node)
        self.env = tuple(env)  # (template variable, bound expression node) in binding order (`{% set x = expr %}` on this path)
        self.cnodes = tuple(cnodes)  # (test node, polarity) parallel to conds, for propositional reasoning over paths

    def binding(self, name: str):
        for n, node in reversed(self.env):
            if n == name:
                return node
        return None

    @property
    def text(self) -> str:
        return "".join(self.parts)

    def xs_of(self, name: str) -> typing.Optional[str]:
        for n, e in self.ph:
            if n == name:
                return e if isinstance(e, str) else xs(e)
        return None

    def names_for(self, pred) -> typing.List[str]:
        return [n for n, e in self.ph if pred(e if isinstance(e, str) else xs(e))]

    def name_of(self, expr_string: str) -> typing.Optional[str]:
        r = self.names_for(lambda s: s == expr_string)
        return r[0] if r else None


def _is_unique_name(N, node) -> bool:
    """`'x' | to_template_unique_name`-like bindings: the variable *is* the identity of a generated name - never inlined"""
    hit = _UNIQ_MEMO.get(id(node))
    if hit is not None and hit[0] is node:
        return hit[1]
    r = any(isinstance(f, N.Filter) and "unique" in f.name for f in [node] + list(node.find_all(N.Filter)))
    if len(_UNIQ_MEMO) > 200000:
        _UNIQ_MEMO.clear()
    _UNIQ_MEMO[id(node)] = (node, r)
    return r


def _string_building(N, node, p, depth=0) -> bool:
    if depth > 6:
        return False
    if isinstance(node, N.Const):
        return isinstance(node.value, str)
    if isinstance(node, N.Name):
        b = p.binding(node.name)
        return b is not None and not _is_unique_name(N, b) and _string_building(N, b, p, depth + 1)
    if isinstance(node, N.Add):
        return _string_building(N, node.left, p, depth + 1) or _string_building(N, node.right, p, depth + 1)
    if isinstance(node, N.Concat):
        return True
    if isinstance(node, N.Filter) and node.name == "format" and isinstance(node.node, N.Const) and isinstance(node.node.value, str):
        return True
    if isinstance(node, N.Mod) and isinstance(node.left, N.Const) and isinstance(node.left.value, str):
        return True
    if isinstance(node, N.CondExpr):
        return _string_building(N, node.expr1, p, depth + 1) or _string_building(N, node.expr2, p, depth + 1)
    return False


_ATOM_MEMO: typing.Dict[typing.Any, typing.Any] = {}


def _path_atoms(p):
    out = set()
    for n, pol in p.cnodes:
        if isinstance(n, str) or n is None:
            continue
        key = (id(n), pol)
        hit = _ATOM_MEMO.get(key)
        if hit is None or hit[0] is not n:
            atoms = set()
            try:
                for a, ap in j2front.conj_terms(n, pol):
                    with j2front.xs_with(None):
                        atoms.add((xs(a), ap))
            except Exception:
                atoms = set()
            if len(_ATOM_MEMO) > 200000:
                _ATOM_MEMO.clear()
            hit = (n, frozenset(atoms))
            _ATOM_MEMO[key] = hit
        out |= hit[1]
    return out


def _decide_condexprs(N, e, p):
    """`a if c else b` inside a printed expression, where the path already decides c: the branch taken (a hoisted
    `{% set w = x.bits if t is D else 0 %}` printed under `{% if t is D %}` is x.bits)"""
    import copy
    atoms = _path_atoms(p) | set(p.conds)

    def decided(ce):
        c, pol = ce.test, True
        while isinstance(c, N.Not):
            c, pol = c.node, not pol
        k = xs(c)
        if (k, pol) in atoms:
            return ce.expr1
        if (k, not pol) in atoms and ce.expr2 is not None:
            return ce.expr2
        return None

    if not any(decided(ce) is not None for ce in e.find_all(N.CondExpr)):
        return e
    e = copy.deepcopy(e)
    holder = N.Tuple([e], "load")
    for _ in range(4):
        changed = False
        for parent in [holder] + list(holder.find_all(N.Node)):
            for field in parent.fields:
                v = getattr(parent, field, None)
                if isinstance(v, N.CondExpr) and decided(v) is not None:
                    setattr(parent, field, decided(v))
                    changed = True
                elif isinstance(v, list):
                    for i, x in enumerate(v):
                        if isinstance(x, N.CondExpr) and decided(x) is not None:
                            v[i] = decided(x)
                            changed = True
        if not changed:
            break
    return holder.items[0]


def _inline_value(N, node, p, depth=0):
    """the expression to print instead of a variable bound to `node`, or None to keep the variable opaque"""
    if depth > 6 or _is_unique_name(N, node):
        return None
    if isinstance(node, N.Name):
        b = p.binding(node.name)
        if b is None:
            return node
        r = _inline_value(N, b, p, depth + 1)
        return r if r is not None else node
    if isinstance(node, N.CondExpr):
        c = node.test
        pol = True
        while isinstance(c, N.Not):
            c, pol = c.node, not pol
        key = xs(c)
        if (key, pol) in p.conds:
            return _inline_value(N, node.expr1, p, depth + 1) or node.expr1
        if (key, not pol) in p.conds:
            return _inline_value(N, node.expr2, p, depth + 1) or node.expr2
        # the atoms a compound path condition implies (`a and b` taken: a, b; `a or b` not taken: not a, not b)
        atoms = _path_atoms(p)
        if (key, pol) in atoms:
            return _inline_value(N, node.expr1, p, depth + 1) or node.expr1
        if (key, not pol) in atoms:
            return _inline_value(N, node.expr2, p, depth + 1) or node.expr2
        return None
    if _string_building(N, node, p):
        return node
    # an alias of an attribute path (`{% set r = f.data_type.inclusive_value_range %}`): `r.min` is spelled as the full path
    base = node
    while isinstance(base, N.Getattr):
        base = base.node
    if isinstance(node, N.Getattr) and isinstance(base, N.Name) and p.binding(base.name) is None and id(node) not in _PARAM_BOUND:
        # (only over a name that is free on this path, and only for `{% set %}`: a macro parameter bound to `t.inner_type`
        # shadows the caller's `t`, and the parameters of nested expansions of one macro share their names)
        return node
    if id(node) in _PARAM_BOUND and isinstance(node, (N.Add, N.Sub, N.Mul)):
        # an arithmetic argument of an expanded helper (`offset + t.length_field_type.bit_length` for its `first_offset`): the
        # parameter is spelled as the argument, provided every name in it is free on this path (means the same in both scopes)
        names = [x for x in node.find_all(N.Name)]
        if names and all(p.binding(x.name) is None for x in names) and not any(True for _ in node.find_all(N.Call)) \
                and not any(True for _ in node.find_all(N.Filter)):
            return node
    return None


_PARAM_BOUND: typing.Set[int] = set()  # ids of argument nodes bound to macro parameters by helper expansion (template ASTs outlive it)
_SUB_MEMO: typing.Dict[typing.Any, typing.Any] = {}
_UNIQ_MEMO: typing.Dict[int, typing.Any] = {}


def _sub_of(N, p):
    if p is None or not p.env:
        return None
    # memo per (bindings, conditions); the entry keeps the environment alive, so the node ids in the key stay unique
    key = (tuple((n, id(b)) for n, b in p.env), p.conds)
    hit = _SUB_MEMO.get(key)
    if hit is not None:
        return hit[1]
    r = _sub_of_uncached(N, p)
    if len(_SUB_MEMO) > 200000:
        _SUB_MEMO.clear()
    _SUB_MEMO[key] = (p.env, r)
    return r


def _sub_of_uncached(N, p):
    out = {}
    for name, _node in p.env:
        b = p.binding(name)
        v = _inline_value(N, b, p)
        if v is not None and not (isinstance(v, N.Name) and v.name == name):
            out[name] = v
    return out or None


_FMT = None


def _expand(N, e, p, depth=0):
    """pieces (literal text | expression node) an output expression contributes on path p: template variables bound to
    aliases or string-building expressions ('%s.count' | format(ref), ref + '.count', conditional aliases) are expanded"""
    import re
    if depth > 8:
        return [e]
    if isinstance(e, N.Name):
        b = p.binding(e.name)
        if b is not None:
            v = _inline_value(N, b, p)
            if v is not None and v is not e:
                return _expand(N, v, p, depth + 1)
        return [e]
    if isinstance(e, N.Const) and isinstance(e.value, str):
        return [e.value]
    if isinstance(e, N.CondExpr):
        v = _inline_value(N, e, p)
        return _expand(N, v, p, depth + 1) if v is not None and v is not e else [e]
    if not _string_building(N, e, p):
        return [e]
    if isinstance(e, N.Add):
        return _expand(N, e.left, p, depth + 1) + _expand(N, e.right, p, depth + 1)
    if isinstance(e, N.Concat):
        out = []
        for x in e.nodes:
            out += _expand(N, x, p, depth + 1)
        return out
    fmt, args = None, None
    if isinstance(e, N.Filter) and e.name == "format":
        fmt, args = e.node.value, list(e.args)
    elif isinstance(e, N.Mod):
        fmt, args = e.left.value, (list(e.right.items) if isinstance(e.right, N.Tuple) else [e.right])
    if fmt is not None:
        specs = list(re.finditer(r"%(?:%|[-+ #0]*\d*(?:\.\d+)?[sdiuxXrf])", fmt))
        real = [m for m in specs if m.group(0) != "%%"]
        if len(real) != len(args):
            return [e]
        out, pos, k = [], 0, 0
        for m in specs:
            out.append(fmt[pos:m.start()])
            pos = m.end()
            if m.group(0) == "%%":
                out.append("%")
            else:
                a = args[k]
                k += 1
                if isinstance(a, N.Const) and isinstance(a.value, (int, str)):
                    out.append(str(a.value))
                else:
                    out += _expand(N, a, p, depth + 1)
        out.append(fmt[pos:])
        return [x for x in out if x != ""]
    return [e]


ATOMIC_MACRO = __import__("re").compile(r"^(_?(de)?serialize(_\w+)?|_pad_to_alignment|assert|_?(de)?serialize_any)$")


def _helper_call(N, e, macros):
    """(macro, call) when the output expression is a call (possibly piped through trim/indent) of a *helper* macro of the same
    template: one that is not an emitter of the codec family, which the rules treat as atomic events"""
    if not macros:
        return None
    while isinstance(e, N.Filter) and e.name in ("trim", "indent", "string", "safe", "remove_blank_lines") and e.node is not None:
        e = e.node
    if isinstance(e, N.Call) and isinstance(e.node, N.Name) and e.node.name in macros and e.dyn_args is None and e.dyn_kwargs is None:
        name = e.node.name
        mac = macros[name]
        # an emitter of the codec family has the family's signature (type, reference, offset); a macro that merely carries a
        # family-like name (`_deserialize_bit_run(destination, length)`) is a helper and is expanded in place
        atomic = ATOMIC_MACRO.match(name) is not None and (len(mac.args) == 3 or name in ("_pad_to_alignment", "assert"))
        if not atomic:
            return mac, e
    return None


def _is_caller_call(N, e) -> bool:
    return isinstance(e, N.Call) and isinstance(e.node, N.Name) and e.node.name == "caller" and not e.args and not e.kwargs \
        and e.dyn_args is None and e.dyn_kwargs is None


def render_paths(N, nodes, limit: int = 512, for_zero: bool = False, subst=None, prefix: str = "P", macros=None) -> typing.List[TPath]:
    """enumerate the static text paths of a node list.
    subst(expr_node) may return a literal replacement string for an expression (e.g. an operator held in a variable).
    macros: name -> Macro of the same template; calls of helper macros (not the codec emitters) are expanded in place with
    their parameters bound, so that extracting repeated text into a helper macro does not change the rendered paths."""
    inlining = [0]
    counter = [0]
    names: typing.Dict[str, str] = {}

    def cond_of(p, test, pol):
        # `not c` taken == `c` not taken: one spelling per condition, so that equivalent templates give equal paths; a
        # condition held in a template variable is spelled as the expression it was set to
        while True:
            if isinstance(test, N.Not):
                test, pol = test.node, not pol
            elif isinstance(test, N.Name) and p.binding(test.name) is not None and not _is_unique_name(N, p.binding(test.name)):
                test = p.binding(test.name)
            else:
                break
        with j2front.xs_with(_sub_of(N, p)):
            return (xs(test), pol), (test, pol)

    def new_ph(e, p=None):
        if subst is not None:
            r = subst(e)
            if r is not None:
                return r, None
        # a printed variable that is bound (on this path) to a pure expression is keyed by that expression: what a helper macro
        # prints for its parameter `capacity` is keyed `t.capacity`, as if the text had been written in the caller
        hops = 0
        while p is not None and isinstance(e, N.Name) and hops < 4:
            b = p.binding(e.name)
            if b is None or _is_unique_name(N, b) or (isinstance(b, N.Name) and b.name == e.name) or \
                    any(isinstance(x, N.Call) and not j2front._pure_method_call(N, x) for x in [b] + list(b.find_all(N.Call))):
                break
            e = b
            hops += 1
        if p is not None and p.cnodes and any(True for _ in e.find_all(N.CondExpr)):
            e = _decide_condexprs(N, e, p)
        with j2front.xs_with(_sub_of(N, p) if p is not None else None):
            key = xs(e)
        if key in names:  # the same expression gets the same identifier everywhere
            return names[key], None
        name = f"{prefix}z{counter[0]}z"  # detectable without word boundaries (C suffixes follow directly: Pz3zUL)
        counter[0] += 1
        names[key] = name
        return name, (name, key)

    caller_stack: typing.List[typing.Any] = []

    def expand_helper(mac, call, paths, caller_body):
        nxt = []
        inlining[0] += 1
        try:
            for p in paths:
                bind = []
                for i, a in enumerate(mac.args):
                    val = None
                    if i < len(call.args):
                        val = call.args[i]
                    else:
                        kw = [k.value for k in call.kwargs if k.key == a.name]
                        if kw:
                            val = kw[0]
                        else:
                            j = i - (len(mac.args) - len(mac.defaults))
                            if 0 <= j < len(mac.defaults):
                                val = mac.defaults[j]
                    if val is not None and not (isinstance(val, N.Name) and val.name == a.name):
                        # the argument is evaluated in the caller's scope: inline the caller's bindings into it now
                        bind.append((a.name, val))
                        _PARAM_BOUND.add(id(val))
                if caller_body is not None:
                    caller_stack.append((caller_body, p.env))
                try:
                    inner = run(mac.body, [TPath(p.parts, p.conds, p.ph, p.env + tuple(bind), p.cnodes)])
                finally:
                    if caller_body is not None:
                        caller_stack.pop()
                for q in inner:
                    nxt.append(TPath(q.parts, q.conds, q.ph, p.env, q.cnodes))
        finally:
            inlining[0] -= 1
        return nxt

    def run(nodes, paths: typing.List[TPath]) -> typing.List[TPath]:
        for node in nodes:
            if j2front.assert_call(N, node) is not None and not isinstance(node, N.CallBlock):
                # `{% assert %}` spelled as an output / expression statement of the checking call: no text
                if j2front.is_assert_false(N, node):
                    paths = []
                continue
            if isinstance(node, N.Output):
                for e in node.nodes:
                    if isinstance(e, N.TemplateData):
                        paths = [TPath(p.parts + (e.data,), p.conds, p.ph, p.env, p.cnodes) for p in paths]
                    elif _is_caller_call(N, e) and caller_stack:
                        # `{{ caller() }}` inside a helper expanded from `{% call helper(..) %}body{% endcall %}`: the body, in the
                        # scope of the call site
                        body, site_env = caller_stack.pop()
                        try:
                            nxt = []
                            for p in paths:
                                for q in run(body, [TPath(p.parts, p.conds, p.ph, site_env, p.cnodes)]):
                                    nxt.append(TPath(q.parts, q.conds, q.ph, p.env, q.cnodes))
                        finally:
                            caller_stack.append((body, site_env))
                        paths = nxt
                    elif _helper_call(N, e, macros) is not None and inlining[0] < 3:
                        mac, call = _helper_call(N, e, macros)
                        paths = expand_helper(mac, call, paths, None)
                    else:
                        nxt = []
                        work = list(paths)
                        while work:
                            p = work.pop(0)
                            parts, phs = [], []
                            pieces = _expand(N, e, p)
                            # `'==' if c else '<='` printed where c is not decided on this path: the path forks like an {% if %}
                            ce = next((x for x in pieces if not isinstance(x, str) and isinstance(x, N.CondExpr) and x.expr2 is not None
                                       and all(isinstance(a, N.Const) and isinstance(a.value, str) for a in (x.expr1, x.expr2))), None)
                            if ce is not None and len(work) + len(nxt) < limit:
                                (cs, cn) = cond_of(p, ce.test, True)
                                (ns, nn) = cond_of(p, ce.test, False)
                                if cs not in p.conds and ns not in p.conds:
                                    work.insert(0, TPath(p.parts, p.conds + (ns,), p.ph, p.env, p.cnodes + (nn,)))
                                    work.insert(0, TPath(p.parts, p.conds + (cs,), p.ph, p.env, p.cnodes + (cn,)))
                                    continue
                            for piece in pieces:
                                if isinstance(piece, str):
                                    parts.append(piece)
                                else:
                                    s, ph = new_ph(piece, p)
                                    parts.append(s)
                                    if ph:
                                        phs.append(ph)
                            nxt.append(TPath(p.parts + tuple(parts), p.conds, p.ph + tuple(phs), p.env, p.cnodes))
                        paths = nxt
            elif isinstance(node, N.If):
                out = []
                neg: typing.Tuple = ()
                branches = [(node.test, node.body)] + [(e.test, e.body) for e in node.elif_]
                def feasible(p, extra, extra_nodes=()):
                    have = set(p.conds)
                    if any((e, not pol) in have for e, pol in extra):
                        return False
                    # a compound condition against the atoms the path already implies: `a and b` cannot be taken after `a` was refused
                    if extra_nodes and p.cnodes:
                        atoms = _path_atoms(p) | have
                        for n_, pol_ in extra_nodes:
                            try:
                                for a_, ap_ in j2front.conj_terms(n_, pol_):
                                    if (xs(a_), not ap_) in atoms:
                                        return False
                            except Exception:
                                continue
                    return True

                for p in paths:
                    negs, negn = (), ()
                    for test, body in branches:
                        (cs, cn) = cond_of(p, test, True)
                        extra = negs + (cs,)
                        if feasible(p, extra, negn + (cn,)):
                            out.extend(run(body, [TPath(p.parts, p.conds + extra, p.ph, p.env, p.cnodes + negn + (cn,))]))
                        (ns, nn) = cond_of(p, test, False)
                        negs, negn = negs + (ns,), negn + (nn,)
                    if feasible(p, negs, negn):
                        q = TPath(p.parts, p.conds + negs, p.ph, p.env, p.cnodes + negn)
                        out.extend(run(node.else_, [q]) if node.else_ else [q])
                paths = out
            elif isinstance(node, N.For):
                def for_cond(p):
                    # the loop as a path condition, spelled in the caller's terms (macro parameters substituted); a filtered loop
                    # (`for x in xs if c`) carries its filter
                    with j2front.xs_with(_sub_of(N, p)):
                        return f"for {xs(node.target)} in {xs(node.iter)}" + (f" if {xs(node.test)}" if node.test is not None else "")
                once = run(node.body, [TPath(p.parts, p.conds + ((for_cond(p), True),), p.ph, p.env, p.cnodes) for p in paths])
                paths = once + (paths if for_zero else [])
            elif j2front.is_assert_false(N, node):
                paths = []  # {% assert False %}: generation fails here, no text is produced on this path
            elif isinstance(node, N.CallBlock) and not node.args and _helper_call(N, node.call, macros) is not None and inlining[0] < 3 \
                    and any(_is_caller_call(N, c) for c in _helper_call(N, node.call, macros)[0].find_all(N.Call)):
                # `{% call helper(..) %}body{% endcall %}`: the helper's text with the body where it prints `caller()`
                mac, call = _helper_call(N, node.call, macros)
                paths = expand_helper(mac, call, paths, list(node.body))
            elif isinstance(node, (N.CallBlock, N.FilterBlock, N.Block)):
                paths = run(node.body, paths)
            elif isinstance(node, N.Assign) and isinstance(node.target, N.Name):
                tname = node.target.name
                self_ref = any(isinstance(x, N.Name) and x.name == tname and x.ctx == "load" for x in [node.node] + list(node.node.find_all(N.Name)))
                nxt = []
                for p in paths:
                    rhs = node.node
                    if self_ref and p.binding(tname) is not None:
                        # `x = f(x)`: the right-hand side reads the previous binding - resolve it now, the name is about to be rebound
                        import copy
                        holder = N.Tuple([copy.deepcopy(node.node)], "load")
                        j2front._replace_names(N, holder, {tname: p.binding(tname)})
                        rhs = holder.items[0]
                    nxt.append(TPath(p.parts, p.conds, p.ph, p.env + ((tname, rhs),), p.cnodes))
                paths = nxt
            elif isinstance(node, (N.Assign, N.AssignBlock, N.Macro, N.Import, N.FromImport, N.ExprStmt, N.Extends, N.Include)):
                pass
            else:
                pass
            if len(paths) > limit:
                raise AnalysisError(f"more than {limit} static text paths")
        return paths

    res = run(nodes, [TPath()])
    table = tuple((n, k) for k, n in names.items())
    for p in res:
        p.ph = tuple((n, k) for n, k in table)  # (placeholder, normalised expression string)
    return res


def find_if_chain_over(N, root, pred):
    """first If node below root whose first test satisfies pred(xs(test))"""
    for n in root.find_all(N.If):
        if pred(xs(n.test)):
            return n
    return None


def branches_of(N, ifnode):
    """[(condition string, body nodes)] incl. ('else', body)"""
    out = [(xs(ifnode.test), ifnode.body)]
    for e in ifnode.elif_:
        out.append((xs(e.test), e.body))
    out.append(("else", ifnode.else_))
    return out
