"""
J2-T: static rendering of a Jinja subtree into the target-language text it can emit, one string per template path.

Every Jinja expression becomes a placeholder identifier (P0, P1, ...) that carries its normalised expression; every
`{% if %}` contributes one path per branch (with the branch condition recorded); `{% for %}` bodies are taken once
(and, optionally, zero times); nested macro calls stay placeholders (they are analysed on their own).
"""
import typing

from . import j2front
from .j2front import xs
from .report import AnalysisError


class TPath:
    __slots__ = ("parts", "conds", "ph")

    def __init__(self, parts=(), conds=(), ph=()):
        self.parts = tuple(parts)  # strings
        self.conds = tuple(conds)  # (expr string, polarity)
        self.ph = tuple(ph)  # (placeholder name, expression node)

    @property
    def text(self) -> str:
        return "".join(self.parts)

    def xs_of(self, name: str) -> typing.Optional[str]:
        for n, e in self.ph:
            if n == name:
                return e if isinstance(e, str) else xs(e)
        return None

    def names_for(self, pred) -> typing.List[str]:
        return [n for n, e in self.ph if pred(e if isinstance(e, str) else xs(e))]

    def name_of(self, expr_string: str) -> typing.Optional[str]:
        r = self.names_for(lambda s: s == expr_string)
        return r[0] if r else None


def render_paths(N, nodes, limit: int = 512, for_zero: bool = False, subst=None, prefix: str = "P") -> typing.List[TPath]:
    """enumerate the static text paths of a node list.
    subst(expr_node) may return a literal replacement string for an expression (e.g. an operator held in a variable)."""
    counter = [0]
    names: typing.Dict[str, str] = {}

    def new_ph(e):
        if subst is not None:
            r = subst(e)
            if r is not None:
                return r, None
        key = xs(e)
        if key in names:  # the same expression gets the same identifier everywhere
            return names[key], None
        name = f"{prefix}z{counter[0]}z"  # detectable without word boundaries (C suffixes follow directly: Pz3zUL)
        counter[0] += 1
        names[key] = name
        return name, (name, e)

    def run(nodes, paths: typing.List[TPath]) -> typing.List[TPath]:
        for node in nodes:
            if isinstance(node, N.Output):
                for e in node.nodes:
                    if isinstance(e, N.TemplateData):
                        paths = [TPath(p.parts + (e.data,), p.conds, p.ph) for p in paths]
                    else:
                        s, ph = new_ph(e)
                        paths = [TPath(p.parts + (s,), p.conds, p.ph + ((ph,) if ph else ())) for p in paths]
            elif isinstance(node, N.If):
                out = []
                neg: typing.Tuple = ()
                branches = [(node.test, node.body)] + [(e.test, e.body) for e in node.elif_]
                def feasible(p, extra):
                    have = set(p.conds)
                    return not any((e, not pol) in have for e, pol in extra)

                def cond(test, pol):
                    # `not c` taken == `c` not taken: one spelling per condition, so that equivalent templates give equal paths
                    while isinstance(test, N.Not):
                        test, pol = test.node, not pol
                    return (xs(test), pol)

                for test, body in branches:
                    extra = neg + (cond(test, True),)
                    pre = [TPath(p.parts, p.conds + extra, p.ph) for p in paths if feasible(p, extra)]
                    out.extend(run(body, pre))
                    neg = neg + (cond(test, False),)
                pre = [TPath(p.parts, p.conds + neg, p.ph) for p in paths if feasible(p, neg)]
                out.extend(run(node.else_, pre) if node.else_ else pre)
                paths = out
            elif isinstance(node, N.For):
                once = run(node.body, [TPath(p.parts, p.conds + ((f"for {xs(node.target)} in {xs(node.iter)}", True),), p.ph) for p in paths])
                paths = once + (paths if for_zero else [])
            elif isinstance(node, N.CallBlock) and "_do_assert" in xs(node.call) and node.call.args and xs(node.call.args[0]) == "False":
                paths = []  # {% assert False %}: generation fails here, no text is produced on this path
            elif isinstance(node, (N.CallBlock, N.FilterBlock, N.Block)):
                paths = run(node.body, paths)
            elif isinstance(node, (N.Assign, N.AssignBlock, N.Macro, N.Import, N.FromImport, N.ExprStmt, N.Extends, N.Include)):
                pass
            else:
                pass
            if len(paths) > limit:
                raise AnalysisError(f"more than {limit} static text paths")
        return paths

    res = run(nodes, [TPath()])
    table = tuple((n, k) for k, n in names.items())
    for p in res:
        p.ph = tuple((n, k) for n, k in table)  # (placeholder, normalised expression string)
    return res


def find_if_chain_over(N, root, pred):
    """first If node below root whose first test satisfies pred(xs(test))"""
    for n in root.find_all(N.If):
        if pred(xs(n.test)):
            return n
    return None


def branches_of(N, ifnode):
    """[(condition string, body nodes)] incl. ('else', body)"""
    out = [(xs(ifnode.test), ifnode.body)]
    for e in ifnode.elif_:
        out.append((xs(e.test), e.body))
    out.append(("else", ifnode.else_))
    return out
