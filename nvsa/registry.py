"""
Model of what a template of language L can resolve: filters, tests, uses-queries, globals.  Built statically from the
Python sources (naming convention filter_/is_/uses_), the vendored Jinja tables, properties.yaml and the pydsdl class
hierarchy - mirroring CodeGenEnvironment._update_language_support / add_conventional_methods_to_environment.
"""
import ast
import typing

import yaml

from . import pyfront
from .report import AnalysisError

JINJA_DEFAULT_GLOBALS = {"range", "dict", "lipsum", "cycler", "joiner", "namespace"}
RESERVED_NS = {"ln", "options", "uses_queries", "nunavut"}


def _dict_keys(tree, name):
    for n in ast.walk(tree):
        if isinstance(n, ast.Assign) and any(isinstance(t, ast.Name) and t.id == name for t in n.targets) and isinstance(n.value, ast.Dict):
            return {k.value for k in n.value.keys if isinstance(k, ast.Constant)}
    return set()


def _strip(name):
    for p in ("filter_", "is_", "uses_"):
        if name.startswith(p):
            return p, name[len(p):]
    return None, name


class Registry:
    def __init__(self, root, px: pyfront.PyIndex):
        self.root = root
        self.px = px
        vend = root / "src" / "nunavut" / "jinja" / "jinja2"
        self.jinja_filters = _dict_keys(ast.parse((vend / "filters.py").read_text()), "FILTERS")
        self.jinja_tests = _dict_keys(ast.parse((vend / "tests.py").read_text()), "TESTS")
        if len(self.jinja_filters) < 40 or len(self.jinja_tests) < 20:
            raise AnalysisError("anchor missing: FILTERS/TESTS tables of the bundled jinja2")
        self.cfg = yaml.safe_load((root / "src" / "nunavut" / "lang" / "properties.yaml").read_text())
        self.languages = sorted(k.split(".")[-1] for k in self.cfg if k.startswith("nunavut.lang."))
        # conventional functions per language module (own defs + functions imported into the module namespace)
        self.lang_funcs: typing.Dict[str, typing.Dict[str, typing.Set[str]]] = {}
        for ln in self.languages:
            modname = f"nunavut.lang.{ln}"
            d = {"filter_": set(), "is_": set(), "uses_": set()}
            m = px.modules.get(modname)
            if m is not None:
                for fname in m.funcs:
                    p, n = _strip(fname)
                    if p:
                        d[p].add(n)
                for local, target in m.imports.items():
                    obj = px._resolve_dotted(target)
                    if isinstance(obj, pyfront.Func) and obj.cls is None:
                        p, n = _strip(obj.name)  # registered under the function's own __name__
                        if p:
                            d[p].add(n)
            self.lang_funcs[ln] = d
        # generator-level conventional methods (DSDLCodeGenerator and bases) - type templates only
        self.gen_funcs = {"filter_": set(), "is_": set(), "uses_": set()}
        c = px.cls("nunavut.jinja", "DSDLCodeGenerator")
        stack = [c]
        while stack:
            k = stack.pop()
            for mname in k.methods:
                p, n = _strip(mname.split("@")[0])
                if p:
                    self.gen_funcs[p].add(n)
            stack.extend(k.bases)
        # pydsdl class tests (type templates only)
        import pydsdl

        def subs(cl):
            out = [cl]
            for s in cl.__subclasses__():
                out.extend(subs(s))
            return out

        self.pydsdl_tests = set()
        for r in (pydsdl.SerializableType, pydsdl.Attribute):
            for cl in subs(r):
                self.pydsdl_tests.add(cl.__name__)
                low = cl.__name__.lower()
                if len(low) > 4 and low.endswith("type"):
                    self.pydsdl_tests.add(low[:-4])
                elif len(low) > 5 and low.endswith("field"):
                    self.pydsdl_tests.add(low[:-5])
                else:
                    self.pydsdl_tests.add(low)

    # -----------------------------------------------------------------------------------------------------------
    def filters(self, lang: str, kind: str) -> typing.Set[str]:
        out = set(self.jinja_filters)
        if kind == "templates":
            out |= self.gen_funcs["filter_"]
        out |= self.lang_funcs.get(lang, {}).get("filter_", set())
        for ln, d in self.lang_funcs.items():
            out |= {f"ln.{ln}.{n}" for n in d["filter_"]}
        return out

    def tests(self, lang: str, kind: str) -> typing.Set[str]:
        out = set(self.jinja_tests)
        if kind == "templates":
            out |= self.gen_funcs["is_"] | self.pydsdl_tests
        out |= self.lang_funcs.get(lang, {}).get("is_", set())
        for ln, d in self.lang_funcs.items():
            out |= {f"ln.{ln}.{n}" for n in d["is_"]}
        return out

    def uses(self, lang: str) -> typing.Set[str]:
        return set(self.lang_funcs.get(lang, {}).get("uses_", set()))

    def globals(self, lang: str, kind: str) -> typing.Set[str]:
        out = set(JINJA_DEFAULT_GLOBALS) | set(RESERVED_NS) | {"now_utc"}
        sect = self.cfg.get(f"nunavut.lang.{lang}", {})
        out |= {f"typename_{k}" for k in (sect.get("named_types") or {})}
        out |= {f"valuetoken_{k}" for k in (sect.get("named_values") or {})}
        # _validate_globals additions of the language class
        m = self.px.modules.get(f"nunavut.lang.{lang}")
        if m is not None and "Language" in m.classes and "_validate_globals" in m.classes["Language"].methods:
            f = m.classes["Language"].methods["_validate_globals"]
            gm = f.node.args.args[1].arg
            for n in ast.walk(f.node):
                if isinstance(n, ast.Assign) and isinstance(n.targets[0], ast.Subscript) and ast.unparse(n.targets[0].value) == gm \
                        and isinstance(n.targets[0].slice, ast.Constant):
                    out.add(n.targets[0].slice.value)
        if kind == "templates":
            out.add("T")
        return out

    def option_keys(self, lang: str) -> typing.Set[str]:
        sect = self.cfg.get(f"nunavut.lang.{lang}", {})
        keys = set((sect.get("options") or {}).keys())
        m = self.px.modules.get(f"nunavut.lang.{lang}")
        if m is not None and "Language" in m.classes and "_validate_language_options" in m.classes["Language"].methods:
            f = m.classes["Language"].methods["_validate_language_options"]
            for n in ast.walk(f.node):
                if isinstance(n, ast.Assign) and isinstance(n.targets[0], ast.Subscript) and ast.unparse(n.targets[0].value) == "options" \
                        and isinstance(n.targets[0].slice, ast.Constant):
                    keys.add(n.targets[0].slice.value)
        return keys
