"""
Effect primitives: recognition of ambient-state reads and file-system effects in Python ASTs, with the dotted name
resolved through the module's import table (so `from datetime import datetime as dt; dt.now()` is still found).
"""
import ast
import typing

from .pyfront import Func, Module

# dotted (resolved) prefixes that read ambient state.  value = category
AMBIENT_CALLS = {
    "datetime.datetime.now": "clock",
    "datetime.datetime.utcnow": "clock",
    "datetime.datetime.today": "clock",
    "datetime.date.today": "clock",
    "time.time": "clock",
    "time.time_ns": "clock",
    "time.monotonic": "clock",
    "time.perf_counter": "clock",
    "time.localtime": "clock",
    "time.gmtime": "clock",
    "time.strftime": "clock",
    "time.ctime": "clock",
    "time.asctime": "clock",
    "os.getcwd": "cwd",
    "os.getcwdb": "cwd",
    "os.getenv": "environ",
    "os.getpid": "process",
    "os.getppid": "process",
    "os.getuid": "process",
    "os.getlogin": "process",
    "os.uname": "platform",
    "os.urandom": "random",
    "os.path.abspath": "abspath",
    "os.path.realpath": "abspath",
    "os.path.expanduser": "environ",
    "os.path.expandvars": "environ",
    "os.path.getmtime": "fs-meta",
    "os.stat": "fs-meta",
    "socket.gethostname": "platform",
    "getpass.getuser": "process",
    "pathlib.Path.cwd": "cwd",
    "pathlib.Path.home": "environ",
    "id": "identity",
    "hash": "hash",
    "gzip.compress": "implicit-clock",
    "gzip.GzipFile": "implicit-clock",
    "gzip.open": "implicit-clock",
    "tempfile.mkdtemp": "random",
    "tempfile.mkstemp": "random",
    "tempfile.NamedTemporaryFile": "random",
    "tempfile.TemporaryDirectory": "random",
    "tempfile.gettempdir": "environ",
    "locale.getlocale": "environ",
    "locale.getpreferredencoding": "environ",
}
AMBIENT_MODULE_PREFIXES = {
    "platform.": "platform",
    "uuid.": "random",
    "random.": "random",
    "secrets.": "random",
    "tarfile.": "implicit-clock",
    "zipfile.": "implicit-clock",
}
AMBIENT_ATTRS = {
    "os.environ": "environ",
    "sys._xoptions": "platform",
    "sys.prefix": "environ",
    "sys.exec_prefix": "environ",
    "sys.base_prefix": "environ",
    "sys.executable": "environ",
    "sys.argv": "process",
    "sys.platform": "platform",
    "sys.version": "platform",
    "sys.version_info": "platform",
    "sys.flags": "platform",
    "sys.hexversion": "platform",
    "sys.implementation": "platform",
    "sys.byteorder": "platform",
    "sys.maxsize": "platform",
    "os.name": "platform",
    "os.sep": "platform",
    "os.linesep": "platform",
}
# method names that make a path absolute (cwd / location dependent) whatever the receiver
ABS_METHODS = {"resolve": "abspath", "absolute": "abspath", "expanduser": "environ"}


def dotted(node) -> typing.Optional[str]:
    parts = []
    while isinstance(node, ast.Attribute):
        parts.append(node.attr)
        node = node.value
    if isinstance(node, ast.Name):
        parts.append(node.id)
        return ".".join(reversed(parts))
    return None


def resolve_dotted(m: Module, d: str) -> str:
    """Rewrite the head of a dotted name through the module's import table."""
    head, _, rest = d.partition(".")
    if head in m.imports:
        tgt = m.imports[head]
        return tgt + ("." + rest if rest else "")
    return d


class Site:
    def __init__(self, func: typing.Optional[Func], module: Module, node, what: str, category: str):
        self.func = func
        self.module = module
        self.node = node
        self.what = what  # resolved dotted name
        self.category = category

    @property
    def where(self) -> str:
        return self.func.short if self.func is not None else "<module>"


def _shadowed_builtins(m: Module) -> typing.Set[str]:
    out = set()
    for n in ast.walk(m.tree):
        if isinstance(n, (ast.FunctionDef, ast.ClassDef)) and n.name in ("id", "hash"):
            out.add(n.name)
    return out


def ambient_sites(m: Module, funcs_by_node: typing.Dict[int, Func]) -> typing.List[Site]:
    """All ambient reads in a module (calls and attribute reads)."""
    sites: typing.List[Site] = []

    def visit(node, cur: typing.Optional[Func], local_names: typing.Set[str]):
        for c in ast.iter_child_nodes(node):
            nxt = cur
            loc = local_names
            if isinstance(c, (ast.FunctionDef, ast.AsyncFunctionDef)):
                nxt = funcs_by_node.get(id(c), cur)
                loc = {a.arg for a in c.args.args + c.args.kwonlyargs + c.args.posonlyargs}
                if c.args.vararg:
                    loc.add(c.args.vararg.arg)
                if c.args.kwarg:
                    loc.add(c.args.kwarg.arg)
            if isinstance(c, ast.Call):
                d = dotted(c.func)
                if d is not None:
                    head = d.split(".")[0]
                    if head not in local_names or head in m.imports:
                        r = resolve_dotted(m, d)
                        cat = AMBIENT_CALLS.get(r)
                        if cat is None:
                            for pre, pc in AMBIENT_MODULE_PREFIXES.items():
                                if r.startswith(pre):
                                    cat = pc
                        if cat is not None and not (r in ("id", "hash") and r in local_names):
                            sites.append(Site(cur, m, c, r, cat))
                if isinstance(c.func, ast.Attribute) and c.func.attr in ABS_METHODS and not c.args:
                    sites.append(Site(cur, m, c, "." + c.func.attr + "()", ABS_METHODS[c.func.attr]))
            elif isinstance(c, ast.Attribute):
                d = dotted(c)
                if d is not None:
                    r = resolve_dotted(m, d)
                    if r in AMBIENT_ATTRS:
                        sites.append(Site(cur, m, c, r, AMBIENT_ATTRS[r]))
            visit(c, nxt, loc)

    visit(m.tree, None, set())
    # de-duplicate attribute chains (sys.version_info inside sys.version_info[3] etc.)
    return sites


# ---------------------------------------------------------------------------
# file-system effects
# ---------------------------------------------------------------------------
FS_CALLS = {
    "shutil.copy": "copy",
    "shutil.copy2": "copy",
    "shutil.copyfile": "copy",
    "shutil.copytree": "copy",
    "shutil.move": "move",
    "shutil.rmtree": "delete",
    "os.remove": "delete",
    "os.unlink": "delete",
    "os.rmdir": "delete",
    "os.rename": "move",
    "os.replace": "move",
    "os.mkdir": "mkdir",
    "os.makedirs": "mkdir",
    "os.chmod": "chmod",
    "os.chown": "chmod",
    "os.utime": "touch",
    "os.truncate": "write",
    "os.open": "write",
    "os.symlink": "create",
    "os.link": "create",
    "subprocess.run": "subprocess",
    "subprocess.call": "subprocess",
    "subprocess.check_call": "subprocess",
    "subprocess.check_output": "subprocess",
    "subprocess.Popen": "subprocess",
    "os.system": "subprocess",
}
FS_METHODS = {
    "mkdir": "mkdir",
    "chmod": "chmod",
    "lchmod": "chmod",
    "unlink": "delete",
    "rmdir": "delete",
    "rename": "move",
    "replace": "move",
    "touch": "touch",
    "write_text": "write",
    "write_bytes": "write",
    "symlink_to": "create",
    "hardlink_to": "create",
    "link_to": "create",
}
WRITE_MODES = set("wax+")


def _open_mode(call: ast.Call) -> typing.Optional[str]:
    mode = None
    if len(call.args) >= 2:
        mode = call.args[1]
    for k in call.keywords:
        if k.arg == "mode":
            mode = k.value
    if mode is None:
        return "r"
    if isinstance(mode, ast.Constant) and isinstance(mode.value, str):
        return mode.value
    return "?"  # dynamic mode: treat as possibly writing


def fs_effects(m: Module, fnode) -> typing.List[typing.Tuple[ast.Call, str, str]]:
    """(call, kind, what) for every file-system effect call syntactically inside fnode (nested defs included)."""
    out = []
    for c in ast.walk(fnode):
        if not isinstance(c, ast.Call):
            continue
        d = dotted(c.func)
        r = resolve_dotted(m, d) if d else None
        if r in ("open", "io.open", "codecs.open", "builtins.open") or (
            isinstance(c.func, ast.Attribute) and c.func.attr == "open" and not (r or "").startswith("os.")
        ):
            # builtin open(path, mode) or Path.open(mode)
            if isinstance(c.func, ast.Attribute) and r not in ("io.open", "codecs.open", "builtins.open"):
                mode = None
                if c.args:
                    mode = c.args[0]
                for k in c.keywords:
                    if k.arg == "mode":
                        mode = k.value
                if mode is None:
                    ms = "r"
                elif isinstance(mode, ast.Constant) and isinstance(mode.value, str):
                    ms = mode.value
                else:
                    ms = "?"
            else:
                ms = _open_mode(c)
            if ms == "?" or (set(ms) & WRITE_MODES):
                out.append((c, "write", f"open(mode={ms!r})"))
            continue
        if r in FS_CALLS:
            out.append((c, FS_CALLS[r], r))
            continue
        if isinstance(c.func, ast.Attribute) and c.func.attr in FS_METHODS:
            # exclude str.replace / dict-like .replace: Path.replace takes exactly one positional arg, str.replace two
            if c.func.attr in ("replace", "rename") and len(c.args) != 1:
                continue
            if c.func.attr == "replace":
                # str.replace always has 2+ args; a 1-arg .replace is a path move
                pass
            out.append((c, FS_METHODS[c.func.attr], "." + c.func.attr + "()"))
    return out
