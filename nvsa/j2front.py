"""
J2 front-end: parse every built-in template with the *bundled* Jinja2 lexer/parser and Nunavut's own extensions,
imported under stub parent packages so that no other nunavut module (and no pydsdl / yaml) is executed.

Provides: TemplateSet (all templates of the tree), a guard-context walker, an expression normaliser, macro tables.
"""
import importlib
import os
import pathlib
import sys
import types
import typing

from .report import AnalysisError

_J = None  # loaded bundle


class Bundle:
    def __init__(self, jinja2, nodes, ext, extensions):
        self.jinja2 = jinja2
        self.nodes = nodes
        self.ext = ext
        self.extensions = extensions


def load_bundle(root: pathlib.Path) -> Bundle:
    """Import <root>/src/nunavut/jinja/jinja2 (+ extensions.py) under stub parents."""
    global _J
    if _J is not None:
        return _J
    src = pathlib.Path(root) / "src" / "nunavut"
    if not (src / "jinja" / "jinja2" / "parser.py").exists():
        raise AnalysisError(f"bundled jinja2 not found under {src}")
    for name in list(sys.modules):
        if name == "nunavut" or name.startswith("nunavut."):
            raise AnalysisError("nunavut already imported in the analyser process; J2 front-end needs a clean process")
    stub = types.ModuleType("nunavut")
    stub.__path__ = [str(src)]  # type: ignore
    stub.__nvsa_stub__ = True  # type: ignore
    sys.modules["nunavut"] = stub
    stubj = types.ModuleType("nunavut.jinja")
    stubj.__path__ = [str(src / "jinja")]  # type: ignore
    sys.modules["nunavut.jinja"] = stubj
    sys.dont_write_bytecode = True
    try:
        jinja2 = importlib.import_module("nunavut.jinja.jinja2")
        nodes = importlib.import_module("nunavut.jinja.jinja2.nodes")
        ext = importlib.import_module("nunavut.jinja.jinja2.ext")
        extensions = importlib.import_module("nunavut.jinja.extensions")
    except Exception as e:  # a broken bundled parser is an analysis failure, not a verdict
        raise AnalysisError(f"cannot import bundled jinja2 from {src}: {type(e).__name__}: {e}")
    _J = Bundle(jinja2, nodes, ext, extensions)
    return _J


def make_env(b: Bundle):
    return b.jinja2.Environment(
        extensions=[b.ext.do, b.ext.loopcontrols, b.extensions.JinjaAssert, b.extensions.UseQuery],
        keep_trailing_newline=True,
        undefined=b.jinja2.StrictUndefined,
    )


class Tmpl:
    def __init__(self, lang: str, kind: str, path: pathlib.Path, rel: str, source: str, ast):
        self.lang = lang
        self.kind = kind  # 'templates' | 'support'
        self.path = path
        self.rel = rel
        self.name = path.name
        self.source = source
        self.ast = ast

    def __repr__(self):
        return f"<Tmpl {self.rel}>"


def _scope_nodes(N, scope):
    """nodes of a macro body (or template top level) without descending into nested macros"""
    out = []

    def rec(n):
        for c in n.iter_child_nodes():
            if isinstance(c, N.Macro):
                continue
            out.append(c)
            rec(c)

    rec(scope)
    return out


def _replace_names(N, node, mapping, depth=0):
    """replace load-context Name nodes below `node` by the expression they are bound to (in place)"""
    if depth > 40:
        return
    for field in node.fields:
        v = getattr(node, field, None)
        if isinstance(v, N.Node):
            if isinstance(v, N.Name) and v.ctx == "load" and v.name in mapping:
                setattr(node, field, mapping[v.name])
            elif not isinstance(v, N.Macro):
                _replace_names(N, v, mapping, depth + 1)
        elif isinstance(v, list):
            for i, x in enumerate(v):
                if isinstance(x, N.Name) and x.ctx == "load" and x.name in mapping:
                    v[i] = mapping[x.name]
                elif isinstance(x, N.Node) and not isinstance(x, N.Macro):
                    _replace_names(N, x, mapping, depth + 1)


_PURE_METHODS = {"split", "rsplit", "partition", "rpartition", "replace", "count", "format", "lower", "upper", "strip", "lstrip", "rstrip", "join",
                 "startswith", "endswith", "get", "keys", "values", "items", "title", "capitalize", "find", "index", "is_aligned_at", "is_aligned_at_byte"}


def _pure_method_call(N, call) -> bool:
    """a method call on a value (`x.split('.')`) with a side-effect free, deterministic str/dict method: as good as an operator"""
    return isinstance(call.node, N.Getattr) and call.node.attr in _PURE_METHODS and call.dyn_args is None and call.dyn_kwargs is None


_CANON = None


def canonical_params(N, ast, lang: str, kind: str, name: str) -> int:
    """Normalisation applied to every parsed template: the macros the rules talk about, and their parameters, are given the names the
    rules use (frozen in canon_params.json per template, in file order).  A macro is matched by name; macros that are not found by
    name are matched to the table's unmatched entries by position when their number and arities agree (a pure rename).  Renaming
    a private macro or a parameter in a macro signature - `t` to `array_type`, `n_bits` to `alignment_bits` - therefore changes
    nothing for any rule; a macro whose arity differs from the table, or a new helper, is left as it is."""
    global _CANON
    if _CANON is None:
        import json
        _CANON = json.loads((pathlib.Path(__file__).parent / "canon_params.json").read_text())
    table = _CANON.get(f"{lang}/{kind}/{name}")
    if not table:
        return 0
    macros = sorted(ast.find_all(N.Macro), key=lambda m: m.lineno)
    by_name = {m.name: m for m in macros}
    want_of = {}
    left_t = [e for e in table if e[0] not in by_name]
    left_m = [m for m in macros if m.name not in {e[0] for e in table}]
    for e in table:
        if e[0] in by_name:
            want_of[id(by_name[e[0]])] = e
    referenced = {c.name for c in ast.find_all(N.Name)}
    # a pure rename leaves no reference to the old name behind; if one is left (a call site that was not updated) the template is
    # broken and must be seen as it is
    if left_t and len(left_t) == len(left_m) and all(len(e[1]) == len(m.args) for e, m in zip(left_t, left_m)) \
            and not any(e[0] in referenced for e in left_t):
        renames = {m.name: e[0] for e, m in zip(left_t, left_m)}
        for e, m in zip(left_t, left_m):
            want_of[id(m)] = e
            m.name = e[0]
        for c in ast.find_all(N.Name):
            if c.name in renames:
                c.name = renames[c.name]
    total = 0
    for m in macros:
        e = want_of.get(id(m))
        if e is None:
            continue
        want = e[1]
        have = [a.name for a in m.args]
        if len(want) != len(have) or want == have:
            continue
        used = {x.name for x in m.find_all(N.Name)} | set(have)
        clash = [w for w, h in zip(want, have) if w != h and w in used and w not in have]
        if clash:
            continue      # the canonical name is taken by another variable of this macro: leave the macro alone
        tmp = {h: f"__p{i}__" for i, h in enumerate(have)}
        for mapping in (tmp, {tmp[h]: w for h, w in zip(have, want)}):
            for x in list(m.find_all(N.Name)) + list(m.args):
                if x.name in mapping:
                    x.name = mapping[x.name]
        total += 1
    return total


_KIND_SUFFIX = {"VoidType": "void", "BooleanType": "boolean", "IntegerType": "integer", "FloatType": "float", "FixedLengthArrayType": "fixed_length_array",
                "VariableLengthArrayType": "variable_length_array", "CompositeType": "composite"}


def canonical_macro_names(N, ast, name: str) -> int:
    """Normalisation for the codec templates (serialization.j2 / deserialization.j2): the private macros get the names the rules use,
    found by *role* - the macro with the `t is <Kind>Type` dispatch chain is `_(de)serialize_any`, the macro each branch calls is
    `_(de)serialize_<kind>`, the macro the exported entry point calls is `_(de)serialize_impl`, the one-parameter macro called with an
    alignment requirement is `_pad_to_alignment`.  Renaming a private macro therefore changes nothing for any rule."""
    if name not in ("serialization.j2", "deserialization.j2"):
        return 0
    prefix = "_serialize_" if name == "serialization.j2" else "_deserialize_"
    macros = {m.name: m for m in ast.find_all(N.Macro)}
    rename = {}
    for m in macros.values():
        if not m.args:
            continue
        p0 = m.args[0].name
        for iff in m.find_all(N.If):
            branches = [(iff.test, iff.body)] + [(e.test, e.body) for e in iff.elif_]
            kinds = []
            for test, body in branches:
                if isinstance(test, N.Test) and isinstance(test.node, N.Name) and test.node.name == p0 and test.name in _KIND_SUFFIX:
                    callee = None
                    for b in body:
                        for c in [b] + list(b.find_all(N.Call)):
                            if isinstance(c, N.Call) and isinstance(c.node, N.Name) and c.node.name in macros and callee is None:
                                callee = c.node.name
                    kinds.append((test.name, callee))
            if len(kinds) >= 5:
                rename[m.name] = prefix + "any"
                for k, callee in kinds:
                    if callee is not None and callee != m.name:
                        rename.setdefault(callee, prefix + _KIND_SUFFIX[k])
                break
    entry = macros.get("serialize" if name == "serialization.j2" else "deserialize")
    if entry is not None:
        callees = [c.node.name for c in entry.find_all(N.Call) if isinstance(c.node, N.Name) and c.node.name in macros and len(macros[c.node.name].args) == len(entry.args)]
        callees = [c for c in callees if c not in rename and c != "assert"]
        if len(set(callees)) == 1:
            rename.setdefault(callees[0], prefix + "impl")
    for c in ast.find_all(N.Call):
        if isinstance(c.node, N.Name) and c.node.name in macros and len(macros[c.node.name].args) == 1 and len(c.args) == 1 \
                and xs(c.args[0]).endswith("alignment_requirement") and c.node.name not in rename:
            rename[c.node.name] = "_pad_to_alignment"
    rename = {a: b for a, b in rename.items() if a != b}
    referenced = {c.name for c in ast.find_all(N.Name)}
    if not rename or set(rename.values()) & (set(macros) - set(rename)) or set(rename.values()) & referenced:
        return 0      # nothing to do, a canonical name is taken by another macro, or the old name is still referenced (dangling call)
    for m in macros.values():
        if m.name in rename:
            m.name = rename[m.name]
    for c in ast.find_all(N.Name):
        if c.name in rename:
            c.name = rename[c.name]
    return len(rename)


def inline_single_sets(N, ast) -> int:
    """Normalisation applied to every parsed template: inside each macro, a template variable that is assigned exactly once
    (`{% set x = expr %}`), is not a parameter or loop variable, and whose expression is pure (no macro call, no
    unique-name generator) is replaced by that expression at every use.  Hoisting a sub-expression into a named local, or
    inlining one, therefore does not change what any rule sees.  Variables assigned on several branches are resolved per
    path by the renderer (j2text)."""
    total = 0
    for m in list(ast.find_all(N.Macro)) + [ast]:      # every macro, then the template's top level (same rule, no parameters)
        nodes = _scope_nodes(N, m)
        counts = {}
        bound = {}
        blocked = {a.name for a in getattr(m, "args", [])}
        for n in nodes:
            if isinstance(n, N.Assign):
                if isinstance(n.target, N.Name):
                    counts[n.target.name] = counts.get(n.target.name, 0) + 1
                    bound[n.target.name] = n
                else:
                    for x in n.target.find_all(N.Name):
                        blocked.add(x.name)
            elif isinstance(n, N.AssignBlock) and isinstance(n.target, N.Name):
                blocked.add(n.target.name)
            elif isinstance(n, N.For):
                for x in ([n.target] if isinstance(n.target, N.Name) else list(n.target.find_all(N.Name))):
                    blocked.add(x.name)
        # an assignment inside a for loop is re-executed per iteration and invisible outside: never inlined
        in_loop = set()
        for n in nodes:
            if isinstance(n, N.For):
                for a in n.find_all(N.Assign):
                    if isinstance(a.target, N.Name):
                        in_loop.add(a.target.name)
        mapping = {}
        loop_local = {}   # name -> innermost For node that contains its single assignment (inlined inside that loop only)
        for name in in_loop:
            if counts.get(name) == 1 and name not in blocked:
                inner = None
                for n in nodes:
                    if isinstance(n, N.For) and any(a is bound[name] for a in n.find_all(N.Assign)):
                        if inner is None or any(x is n for x in inner.find_all(N.For)):
                            inner = n
                if inner is not None:
                    loop_local[name] = inner
        for name, cnt in counts.items():
            if cnt != 1 or name in blocked or name in in_loop:
                continue
            e = bound[name].node
            subs = [e] + list(e.find_all(N.Node))
            if any(isinstance(x, N.Call) and not _pure_method_call(N, x) for x in subs):
                continue
            if any(isinstance(x, N.Filter) and "unique" in x.name for x in subs):
                continue
            mapping[name] = e
        # resolve chains (x = y + 1, y = t.a): substitute inside the bound expressions first, innermost definitions first
        for _ in range(4):
            for name, e in list(mapping.items()):
                holder = N.Tuple([e], "load")
                _replace_names(N, holder, {k: v for k, v in mapping.items() if k != name})
                mapping[name] = holder.items[0]
        for n in nodes:
            if isinstance(n, N.Assign) and isinstance(n.target, N.Name) and n.target.name in mapping:
                continue
        # an iterable obtained once and walked several times (`{% set o = options.items() %}` used by two loops): inlining it is the same
        # thing only if the method hands out a re-iterable view - recorded, so that the rule that relies on the iteration can ask for that
        for name, e in mapping.items():
            if any(isinstance(x, N.Call) and isinstance(x.node, N.Getattr) and x.node.attr in ("items", "keys", "values") for x in [e] + list(e.find_all(N.Call))):
                uses = sum(1 for x in m.find_all(N.Name) if x.name == name and x.ctx == "load")
                if uses >= 2:
                    rec = getattr(ast, "nvsa_shared_iterables", None)
                    if rec is None:
                        rec = []
                        ast.nvsa_shared_iterables = rec
                    rec.append((name, xs(e), uses, getattr(bound[name], "lineno", None)))
        _replace_names(N, m, mapping)
        # the defining statements keep their (now unused) right-hand sides
        total += len(mapping)
        for name, loop in loop_local.items():
            e = bound[name].node
            subs = [e] + list(e.find_all(N.Node))
            if any(isinstance(x, N.Call) and not _pure_method_call(N, x) for x in subs) or any(isinstance(x, N.Filter) and "unique" in x.name for x in subs):
                continue
            _replace_names(N, loop, {name: e})
            total += 1
    return total


def _equiv_transform(N, ast) -> int:
    """Control only (NVSA_J2_EQUIV=1, used by the self-test): rewrite every `{% if c %}A{% else %}B{% endif %}` without elif of
    a parsed template into the equivalent `{% if not c %}B{% else %}A{% endif %}`.  Checks must decide the same."""
    n = 0
    for node in list(ast.find_all(N.If)):
        if node.else_ and not node.elif_:
            node.body, node.else_ = node.else_, node.body
            t = node.test
            node.test = t.node if isinstance(t, N.Not) else N.Not(t, lineno=getattr(t, "lineno", None))
            n += 1
    return n


class TemplateSet:
    def __init__(self, root: pathlib.Path):
        self.root = pathlib.Path(root)
        self.b = load_bundle(root)
        self.nodes = self.b.nodes
        self.env = make_env(self.b)
        self.templates: typing.List[Tmpl] = []
        langdir = self.root / "src" / "nunavut" / "lang"
        for p in sorted(langdir.glob("*/*/*.j2")):
            lang = p.parent.parent.name
            kind = p.parent.name
            src = p.read_text(encoding="utf-8")
            try:
                ast = self.env.parse(src, name=p.name, filename=str(p))
            except Exception as e:
                raise AnalysisError(f"template {p} does not parse with the bundled parser: {type(e).__name__}: {e}")
            rel = p.relative_to(self.root).as_posix()
            if kind == "templates":
                canonical_macro_names(self.nodes, ast, p.name)
            canonical_params(self.nodes, ast, lang, kind, p.name)
            if os.environ.get("NVSA_J2_NOINLINE") != "1":
                inline_single_sets(self.nodes, ast)
            if os.environ.get("NVSA_J2_EQUIV") == "1":
                _equiv_transform(self.nodes, ast)
            self.templates.append(Tmpl(lang, kind, p, rel, src, ast))
        if len(self.templates) < 30:
            raise AnalysisError(f"only {len(self.templates)} templates found under {langdir}")

    def get(self, lang: str, name: str, kind: str = "templates") -> Tmpl:
        for t in self.templates:
            if t.lang == lang and t.name == name and t.kind == kind:
                return t
        raise AnalysisError(f"anchor missing: template lang/{lang}/{kind}/{name}")

    def of_lang(self, lang: str, kind: typing.Optional[str] = None) -> typing.List[Tmpl]:
        return [t for t in self.templates if t.lang == lang and (kind is None or t.kind == kind)]

    # -- macros ------------------------------------------------------------
    def macros(self, t: Tmpl) -> typing.Dict[str, typing.Any]:
        return {m.name: m for m in t.ast.find_all(self.nodes.Macro)}

    def macro(self, t: Tmpl, name: str):
        m = self.macros(t).get(name)
        if m is None:
            raise AnalysisError(f"anchor missing: macro {name} in {t.rel}")
        return m


# ---------------------------------------------------------------------------
# guard-context walker
# ---------------------------------------------------------------------------
class G:
    """One guard-stack entry."""

    __slots__ = ("kind", "node", "pol", "extra")

    def __init__(self, kind: str, node, pol: typing.Optional[bool] = None, extra=None):
        self.kind = kind  # 'if' | 'for' | 'macro' | 'callblock' | 'filterblock' | 'forelse' | 'condexpr'
        self.node = node  # for 'if'/'condexpr': the test expression node
        self.pol = pol
        self.extra = extra

    def __repr__(self):
        if self.kind in ("if", "condexpr"):
            return f"{'' if self.pol else 'not '}({xs(self.node)})"
        if self.kind == "for":
            return f"for {xs(self.node.target)} in {xs(self.node.iter)}" + (
                f" if {xs(self.node.test)}" if self.node.test is not None else ""
            )
        if self.kind == "macro":
            return f"macro {self.node.name}"
        return self.kind


def walk(node, stack: typing.Tuple[G, ...] = (), nodes=None):
    """Yield (node, guard_stack) for every node below `node` (statement and expression level)."""
    N = nodes or _J.nodes
    yield node, stack
    if isinstance(node, N.If):
        yield from walk(node.test, stack, N)
        neg = stack
        pos = stack + (G("if", node.test, True),)
        for c in node.body:
            yield from walk(c, pos, N)
        neg = neg + (G("if", node.test, False),)
        for e in node.elif_:
            yield from walk(e.test, neg, N)
            pos = neg + (G("if", e.test, True),)
            for c in e.body:
                yield from walk(c, pos, N)
            neg = neg + (G("if", e.test, False),)
        for c in node.else_:
            yield from walk(c, neg, N)
        return
    if isinstance(node, N.For):
        yield from walk(node.iter, stack, N)
        inner = stack + (G("for", node),)
        yield from walk(node.target, inner, N)
        if node.test is not None:
            yield from walk(node.test, inner, N)
        for c in node.body:
            yield from walk(c, inner, N)
        for c in node.else_:
            yield from walk(c, stack + (G("forelse", node),), N)
        return
    if isinstance(node, N.Macro):
        inner = stack + (G("macro", node),)
        for a in node.args:
            yield from walk(a, inner, N)
        for d in node.defaults:
            yield from walk(d, inner, N)
        for c in node.body:
            yield from walk(c, inner, N)
        return
    if isinstance(node, N.CallBlock):
        yield from walk(node.call, stack, N)
        inner = stack + (G("callblock", node),)
        for c in node.body:
            yield from walk(c, inner, N)
        return
    if isinstance(node, N.FilterBlock):
        yield from walk(node.filter, stack, N)
        inner = stack + (G("filterblock", node),)
        for c in node.body:
            yield from walk(c, inner, N)
        return
    if isinstance(node, N.CondExpr):
        yield from walk(node.test, stack, N)
        yield from walk(node.expr1, stack + (G("condexpr", node.test, True),), N)
        if node.expr2 is not None:
            yield from walk(node.expr2, stack + (G("condexpr", node.test, False),), N)
        return
    if isinstance(node, N.And):
        # right operand evaluated only when left is truthy
        yield from walk(node.left, stack, N)
        yield from walk(node.right, stack + (G("condexpr", node.left, True),), N)
        return
    if isinstance(node, N.Or):
        yield from walk(node.left, stack, N)
        yield from walk(node.right, stack + (G("condexpr", node.left, False),), N)
        return
    for c in node.iter_child_nodes():
        yield from walk(c, stack, N)


# ---------------------------------------------------------------------------
# expression normaliser
# ---------------------------------------------------------------------------
_BIN = {
    "Add": "+",
    "Sub": "-",
    "Mul": "*",
    "Div": "/",
    "FloorDiv": "//",
    "Mod": "%",
    "Pow": "**",
}
_CMP = {"eq": "==", "ne": "!=", "gt": ">", "gteq": ">=", "lt": "<", "lteq": "<=", "in": "in", "notin": "not in"}


_XS_SUB: typing.Optional[typing.Dict[str, typing.Any]] = None   # name -> node to print instead (set by xs_with)
_XS_DEPTH = [0]


class xs_with:
    """context manager: print Name nodes that are bound (template `set`) to an alias or a string-building expression as that
    expression, so that hoisting a sub-expression into a template variable does not change the canonical string"""

    def __init__(self, sub):
        self.sub = sub

    def __enter__(self):
        global _XS_SUB
        self.prev = _XS_SUB
        _XS_SUB = self.sub or None

    def __exit__(self, *a):
        global _XS_SUB
        _XS_SUB = self.prev


def _string_pieces(N, n, depth=0):
    """literal / expression pieces of a string-building expression, or None when `n` is not one"""
    import re
    if depth > 6:
        return None

    def sub(x):
        r = _string_pieces(N, x, depth + 1)
        if r is not None:
            return r
        if isinstance(x, N.Const) and isinstance(x.value, (str, int)) and not isinstance(x.value, bool):
            return [str(x.value)]
        return [x]

    if isinstance(n, N.Concat):
        out = []
        for x in n.nodes:
            out += sub(x)
        return out
    if isinstance(n, N.Add) and (isinstance(n.left, N.Const) and isinstance(n.left.value, str) or isinstance(n.right, N.Const) and isinstance(n.right.value, str)
                                 or _string_pieces(N, n.left, depth + 1) is not None or _string_pieces(N, n.right, depth + 1) is not None):
        def side(x):
            if isinstance(x, N.Const) and isinstance(x.value, str):
                return [x.value]
            r = _string_pieces(N, x, depth + 1)
            return r if r is not None else [x]
        return side(n.left) + side(n.right)
    if isinstance(n, N.Call) and isinstance(n.node, N.Getattr) and n.node.attr == "format" and isinstance(n.node.node, N.Const) and isinstance(n.node.node.value, str) \
            and not n.kwargs and n.dyn_args is None and n.dyn_kwargs is None:
        segs = n.node.node.value.split("{}")
        if len(segs) == len(n.args) + 1 and not any("{" in x or "}" in x for x in segs):
            out = []
            for i, sg in enumerate(segs):
                out.append(sg)
                if i < len(n.args):
                    out += sub(n.args[i])
            return out
        return None
    fmt = args = None
    if isinstance(n, N.Filter) and n.name == "format" and isinstance(n.node, N.Const) and isinstance(n.node.value, str) and not n.kwargs:
        fmt, args = n.node.value, list(n.args)
    elif isinstance(n, N.Mod) and isinstance(n.left, N.Const) and isinstance(n.left.value, str):
        fmt, args = n.left.value, (list(n.right.items) if isinstance(n.right, N.Tuple) else [n.right])
    if fmt is not None:
        specs = list(re.finditer(r"%(?:%|[sd])", fmt))
        real = [m for m in specs if m.group(0) != "%%"]
        if len(real) != len(args) or re.search(r"%[^%sd]", fmt):
            return None
        out, pos, k = [], 0, 0
        for m in specs:
            out.append(fmt[pos:m.start()])
            pos = m.end()
            if m.group(0) == "%%":
                out.append("%")
            else:
                out += sub(args[k])
                k += 1
        out.append(fmt[pos:])
        return out
    return None


def xs(n) -> str:
    """Canonical string of a Jinja expression node (whitespace/quote/paren independent)."""
    N = _J.nodes
    if n is None:
        return "None"
    if isinstance(n, list):
        return "[" + ", ".join(xs(x) for x in n) + "]"
    if isinstance(n, N.Name):
        if _XS_SUB is not None and n.name in _XS_SUB and _XS_DEPTH[0] < 8:
            _XS_DEPTH[0] += 1
            try:
                return xs(_XS_SUB[n.name])
            finally:
                _XS_DEPTH[0] -= 1
        return n.name
    if isinstance(n, N.NSRef):
        return f"{n.name}.{n.attr}"
    if isinstance(n, N.Const):
        return repr(n.value)
    if isinstance(n, N.TemplateData):
        return repr(n.data)
    if isinstance(n, N.Getattr):
        return f"{xs(n.node)}.{n.attr}"
    if isinstance(n, N.Getitem):
        if isinstance(n.arg, N.Const) and isinstance(n.arg.value, str) and n.arg.value.isidentifier():
            return f"{xs(n.node)}.{n.arg.value}"
        return f"{xs(n.node)}[{xs(n.arg)}]"
    if isinstance(n, N.Slice):
        return f"{xs(n.start) if n.start is not None else ''}:{xs(n.stop) if n.stop is not None else ''}" + (
            f":{xs(n.step)}" if n.step is not None else ""
        )
    pieces = _string_pieces(N, n)
    if pieces is not None:
        # one spelling for string building: 'a{}b'.format(x), 'a%sb' % x, 'a%sb' | format(x), 'a' ~ x ~ 'b', 'a' + x + 'b'
        flat = []
        for p_ in pieces:
            if isinstance(p_, str):
                if p_ == "":
                    continue
                if flat and isinstance(flat[-1], str):
                    flat[-1] += p_
                else:
                    flat.append(p_)
            else:
                flat.append(p_)
        if len(flat) == 1 and isinstance(flat[0], str):
            return repr(flat[0])
        return "(" + " ~ ".join(repr(x) if isinstance(x, str) else xs(x) for x in flat) + ")"
    if isinstance(n, (N.Call, N.Filter, N.Test)):
        args = [xs(a) for a in n.args] + [f"{k.key}={xs(k.value)}" for k in n.kwargs]
        if n.dyn_args is not None:
            args.append("*" + xs(n.dyn_args))
        if n.dyn_kwargs is not None:
            args.append("**" + xs(n.dyn_kwargs))
        a = ", ".join(args)
        if isinstance(n, N.Call):
            return f"{xs(n.node)}({a})"
        if isinstance(n, N.Filter):
            base = xs(n.node) if n.node is not None else "<block>"
            return f"({base} | {n.name}" + (f"({a})" if a else "") + ")"
        return f"({xs(n.node)} is {n.name}" + (f"({a})" if a else "") + ")"
    if isinstance(n, N.Not):
        return f"(not {xs(n.node)})"
    if isinstance(n, N.Neg):
        return f"(-{xs(n.node)})"
    if isinstance(n, N.Pos):
        return f"(+{xs(n.node)})"
    if isinstance(n, N.And):
        return f"({xs(n.left)} and {xs(n.right)})"
    if isinstance(n, N.Or):
        return f"({xs(n.left)} or {xs(n.right)})"
    if isinstance(n, N.Compare):
        s = xs(n.expr)
        for op in n.ops:
            s += f" {_CMP.get(op.op, op.op)} {xs(op.expr)}"
        return f"({s})"
    if isinstance(n, N.Concat):
        return "(" + " ~ ".join(xs(x) for x in n.nodes) + ")"
    if isinstance(n, N.CondExpr):
        return f"({xs(n.expr1)} if {xs(n.test)} else {xs(n.expr2)})"
    if isinstance(n, N.BinExpr):
        return f"({xs(n.left)} {_BIN.get(type(n).__name__, n.operator)} {xs(n.right)})"
    if isinstance(n, N.Tuple):
        return "(" + ", ".join(xs(x) for x in n.items) + ",)"
    if isinstance(n, N.List):
        return "[" + ", ".join(xs(x) for x in n.items) + "]"
    if isinstance(n, N.Dict):
        return "{" + ", ".join(f"{xs(p.key)}: {xs(p.value)}" for p in n.items) + "}"
    if isinstance(n, N.Keyword):
        return f"{n.key}={xs(n.value)}"
    if isinstance(n, N.ExtensionAttribute):
        return f"ext:{n.identifier.rsplit('.', 1)[-1]}.{n.name}"
    if isinstance(n, N.EnvironmentAttribute):
        return f"env:{n.name}"
    if isinstance(n, N.ContextReference):
        return "ctx"
    if isinstance(n, N.Output):
        return "Output(" + ", ".join(xs(x) for x in n.nodes) + ")"
    return f"<{type(n).__name__}>"


def names_in(n) -> typing.Set[str]:
    N = _J.nodes
    return {x.name for x in n.find_all(N.Name)} | ({n.name} if isinstance(n, N.Name) else set())


def guard_implies(stack: typing.Sequence[G], pred: typing.Callable[[typing.Any, bool], bool]) -> bool:
    """True when some 'if'/'condexpr' entry of the stack satisfies pred(test_node, polarity)."""
    for g in stack:
        if g.kind in ("if", "condexpr") and pred(g.node, g.pol):
            return True
    return False


def conj_terms(test, pol: bool):
    """Split a guard (test, polarity) into atomic (expr, polarity) facts that are all implied.
    pos(a and b) -> a, b ; neg(a or b) -> not a, not b ; Not flips polarity."""
    N = _J.nodes
    if isinstance(test, N.Not):
        yield from conj_terms(test.node, not pol)
    elif isinstance(test, N.And) and pol:
        yield from conj_terms(test.left, True)
        yield from conj_terms(test.right, True)
    elif isinstance(test, N.Or) and not pol:
        yield from conj_terms(test.left, False)
        yield from conj_terms(test.right, False)
    else:
        yield test, pol


def facts(stack: typing.Sequence[G]) -> typing.List[typing.Tuple[str, bool]]:
    """All atomic facts (normalised expression string, polarity) implied by a guard stack."""
    out = []
    for g in stack:
        if g.kind in ("if", "condexpr"):
            for e, p in conj_terms(g.node, g.pol):
                out.append((xs(e), p))
    return out


def enclosing_macro(stack: typing.Sequence[G]):
    for g in reversed(stack):
        if g.kind == "macro":
            return g.node
    return None


def construct_path(stack: typing.Sequence[G]) -> str:
    """Human-readable, line-number-free construct path."""
    parts = []
    for g in stack:
        if g.kind == "macro":
            parts.append(f"macro {g.node.name}")
        elif g.kind == "for":
            parts.append(f"for {xs(g.node.target)} in {xs(g.node.iter)}")
        elif g.kind in ("if", "condexpr"):
            s = xs(g.node)
            if len(s) > 70:
                s = s[:67] + "..."
            parts.append(("if " if g.pol else "if-not ") + s)
    return " > ".join(parts) if parts else "<top>"


# ---------------------------------------------------------------------------
# interprocedural guard oracle over the templates of one language
# ---------------------------------------------------------------------------
def assert_call(N, node):
    """the `_do_assert(...)` call when `node` is an `{% assert %}` statement - whichever node kind JinjaAssert.parse builds for it
    (an empty CallBlock today; an expression statement or an output of the call are other spellings, judged by R-C19-EXT)"""
    c = None
    if isinstance(node, N.CallBlock):
        c = node.call
    elif isinstance(node, N.ExprStmt):
        c = node.node
    elif isinstance(node, N.Output) and len(node.nodes) == 1:
        c = node.nodes[0]
    if isinstance(c, N.Call) and c.args and "_do_assert" in xs(c.node):
        return c
    return None


def is_assert_false(N, node) -> bool:
    c = assert_call(N, node)
    return c is not None and xs(c.args[0]) == "False"


def find_asserts(N, node):
    """all `{% assert %}` statements at or below node"""
    out = [node] if assert_call(N, node) is not None else []
    for x in node.find_all((N.CallBlock, N.ExprStmt, N.Output)):
        if assert_call(N, x) is not None:
            out.append(x)
    return out


class GuardOracle:
    """Decides whether a template location is reachable only under a guard satisfying `pred(facts)`, where facts is
    the list of (expression string, polarity) implied by the lexical guard stack.  Follows macro call sites (same
    template and imported names) and template inclusion sites (include / import / from-import / extends)."""

    def __init__(self, ts: "TemplateSet", lang: str, kind: str = "templates"):
        self.ts = ts
        self.N = ts.nodes
        self.tmpls = [t for t in ts.templates if t.lang == lang and t.kind == kind]
        self.by_name = {t.name: t for t in self.tmpls}
        N = self.N
        # per template: imported macro names -> (source template name, macro name), module aliases
        self.imports: typing.Dict[str, typing.Dict[str, typing.Tuple[str, str]]] = {}
        self.mod_alias: typing.Dict[str, typing.Dict[str, str]] = {}
        # sites where a template is pulled in: target template name -> [(host template, stack)]
        self.pull_sites: typing.Dict[str, typing.List[typing.Tuple[Tmpl, typing.Tuple[G, ...]]]] = {}
        # macro call sites: (template name, macro name) -> [(host template, stack)]
        self.call_sites: typing.Dict[typing.Tuple[str, str], typing.List[typing.Tuple[Tmpl, typing.Tuple[G, ...]]]] = {}
        for t in self.tmpls:
            imp: typing.Dict[str, typing.Tuple[str, str]] = {}
            ali: typing.Dict[str, str] = {}
            for node, stack in walk(t.ast):
                if isinstance(node, N.FromImport) and isinstance(node.template, N.Const):
                    for nm in node.names:
                        if isinstance(nm, tuple):
                            src, alias = nm
                        else:
                            src = alias = nm
                        imp[alias] = (node.template.value, src)
                    self.pull_sites.setdefault(node.template.value, []).append((t, stack))
                elif isinstance(node, N.Import) and isinstance(node.template, N.Const):
                    ali[node.target] = node.template.value
                    self.pull_sites.setdefault(node.template.value, []).append((t, stack))
                elif isinstance(node, (N.Include, N.Extends)) and isinstance(node.template, N.Const):
                    self.pull_sites.setdefault(node.template.value, []).append((t, stack))
            self.imports[t.name] = imp
            self.mod_alias[t.name] = ali
        for t in self.tmpls:
            local_macros = set(ts.macros(t))
            for node, stack in walk(t.ast):
                if not isinstance(node, N.Call):
                    continue
                if isinstance(node.node, N.Name):
                    nm = node.node.name
                    if nm in self.imports[t.name]:
                        self.call_sites.setdefault(self.imports[t.name][nm], []).append((t, stack))
                    elif nm in local_macros:
                        self.call_sites.setdefault((t.name, nm), []).append((t, stack))
                elif isinstance(node.node, N.Getattr) and isinstance(node.node.node, N.Name) and node.node.node.name in self.mod_alias[t.name]:
                    self.call_sites.setdefault((self.mod_alias[t.name][node.node.node.name], node.node.attr), []).append((t, stack))

    def guarded(self, t: Tmpl, stack: typing.Sequence[G], pred, _seen=None) -> bool:
        _seen = _seen if _seen is not None else set()
        if pred(facts(stack)):
            return True
        m = enclosing_macro(stack)
        if m is not None:
            key = ("m", t.name, m.name)
            if key in _seen:
                return True
            _seen.add(key)
            sites = self.call_sites.get((t.name, m.name), [])
            if not sites:
                return False  # never called from the analysed set: cannot justify
            # the guards outside the macro in the defining template do not apply at call time
            return all(self.guarded(ht, hs, pred, _seen) for ht, hs in sites)
        key = ("t", t.name)
        if key in _seen:
            return True
        _seen.add(key)
        sites = self.pull_sites.get(t.name, [])
        if not sites:
            return False  # a root template, rendered directly
        return all(self.guarded(ht, hs, pred, _seen) for ht, hs in sites)
