"""
Reporting core of the static analyser: obligations, violations, known findings, evidence, exit codes.

Exit codes: 0 = all obligations discharged (known findings printed), 1 = VIOLATION, 2 = ANALYSIS-ERROR.
Findings are keyed by (property, rule, file, construct) -- never by line number or source text.
"""
import hashlib
import json
import os
import pathlib
import sys
import time
import typing

VERIF = pathlib.Path(__file__).resolve().parent.parent
KNOWN_FINDINGS = VERIF / "known_findings.json"


class AnalysisError(Exception):
    """The analysis itself could not be carried out (anchor missing, front-end failure)."""


class Obligation:
    __slots__ = ("rule", "file", "construct", "ok", "detail", "line", "path")

    def __init__(self, rule: str, file: str, construct: str, ok: bool, detail: str, line: typing.Optional[int], path):
        self.rule = rule
        self.file = file
        self.construct = construct
        self.ok = ok
        self.detail = detail
        self.line = line
        self.path = path

    def key(self) -> typing.Tuple[str, str, str]:
        return (self.rule, self.file, self.construct)

    def as_dict(self) -> dict:
        d = {
            "rule": self.rule,
            "file": self.file,
            "construct": self.construct,
            "verdict": "ok" if self.ok else "VIOLATED",
        }
        if self.detail:
            d["detail"] = self.detail
        if self.line is not None:
            d["line"] = self.line
        if self.path:
            d["path"] = self.path
        return d


class Ctx:
    """One run of one property's check."""

    def __init__(self, prop: str, tier: str, root: pathlib.Path, evidence_dir: typing.Optional[pathlib.Path] = None):
        self.prop = prop
        self.tier = tier
        self.root = pathlib.Path(root)
        self.src = self.root / "src" / "nunavut"
        self.t0 = time.time()
        self.obligations: typing.List[Obligation] = []
        self.rules: typing.Dict[str, str] = {}
        self.floors: typing.Dict[str, typing.Tuple[int, int]] = {}
        self.units: typing.Dict[str, typing.Any] = {}
        self.notes: typing.List[str] = []
        self.assumptions: typing.List[str] = []
        self.declined: typing.List[str] = []
        self.explanation = ""
        self.evidence_dir = evidence_dir if evidence_dir is not None else (VERIF / "evidence")
        self.controls: typing.Dict[str, typing.Any] = {}
        self._seen: typing.Set[typing.Tuple[str, str, str]] = set()
        self.floor_failures: typing.List[str] = []

    # -- rule registration -------------------------------------------------
    def rule(self, rule_id: str, text: str) -> None:
        self.rules[rule_id] = text

    def rel(self, p: typing.Union[str, pathlib.Path]) -> str:
        p = pathlib.Path(p)
        try:
            return p.resolve().relative_to(self.root.resolve()).as_posix()
        except ValueError:
            return p.as_posix()

    # -- obligations -------------------------------------------------------
    def ob(
        self,
        rule: str,
        file: typing.Union[str, pathlib.Path],
        construct: str,
        ok: bool,
        detail: str = "",
        line: typing.Optional[int] = None,
        path=None,
    ) -> bool:
        """Record one obligation (a rule instance).  Duplicate keys get a numeric suffix in order of appearance."""
        if rule not in self.rules:
            raise AnalysisError(f"rule {rule} used without registration")
        f = self.rel(file) if not isinstance(file, str) or file.startswith("/") else file
        key = (rule, f, construct)
        n = 1
        base = construct
        while key in self._seen:
            n += 1
            construct = f"{base}#{n}"
            key = (rule, f, construct)
        self._seen.add(key)
        self.obligations.append(Obligation(rule, f, construct, bool(ok), detail, line, path))
        return bool(ok)

    def floor(self, rule: str, found: int, minimum: int) -> None:
        """Instance floor: fewer matches than confirmed by hand means the anchor vanished -> analysis broken."""
        self.floors[rule] = (found, minimum)
        if found < minimum:
            # deferred to finish(): a violation that was decided on the instances that do exist is still reported (exit 1);
            # with no violation the run is analysis-broken (exit 2), never a silent pass
            self.floor_failures.append(
                f"rule {rule}: anchor missing - matched {found} instance(s), floor confirmed on the pinned tree is {minimum}"
            )

    def count(self, rule: str) -> int:
        return sum(1 for o in self.obligations if o.rule == rule)

    def note(self, text: str) -> None:
        self.notes.append(text)

    def unit(self, key: str, value) -> None:
        self.units[key] = value

    # -- finishing ---------------------------------------------------------
    def _known(self) -> typing.List[dict]:
        if not KNOWN_FINDINGS.exists():
            return []
        data = json.loads(KNOWN_FINDINGS.read_text())
        return [f for f in data.get("findings", []) if f.get("property") == self.prop and f.get("status") == "known"]

    def finish(self) -> int:
        known = self._known()
        known_keys = {(k["rule"], k["file"], k["construct"]): k for k in known}
        violations = [o for o in self.obligations if not o.ok]
        matched_known = []
        new_violations = []
        for v in violations:
            if v.key() in known_keys:
                matched_known.append(v)
            else:
                new_violations.append(v)
        for v in matched_known:
            k = known_keys[v.key()]
            print(
                f"KNOWN-FINDING: property={self.prop} rule={v.rule} {v.file} :: {v.construct} -- {k.get('what', v.detail)}"
            )
        stale = [k for key, k in known_keys.items() if key not in {v.key() for v in violations}]
        for k in stale:
            # a listed finding that no longer fires is not an error (it may have been repaired); it is reported.
            print(f"NOTE: listed known finding no longer observed: {k['rule']} {k['file']} :: {k['construct']}")

        replay_dir = self.evidence_dir / "replay"
        replay_paths = []
        if new_violations:
            replay_dir.mkdir(parents=True, exist_ok=True)
        for v in new_violations:
            h = hashlib.sha1("|".join(v.key()).encode()).hexdigest()[:10]
            rp = replay_dir / f"{self.prop}-{v.rule}-{h}.json"
            rp.write_text(
                json.dumps(
                    {
                        "property": self.prop,
                        "rule": v.rule,
                        "rule_text": self.rules.get(v.rule, ""),
                        "file": v.file,
                        "construct": v.construct,
                        "line": v.line,
                        "detail": v.detail,
                        "path": v.path,
                        "root": str(self.root),
                        "tier": self.tier,
                    },
                    indent=1,
                )
            )
            replay_paths.append(rp)
            loc = f"{v.file}:{v.line}" if v.line is not None else v.file
            print(f"  violated: [{v.rule}] {loc} :: {v.construct} -- {v.detail}")
            print(f"VIOLATION property={self.prop} replay={rp}")

        meta_problems: typing.List[str] = []
        if self.tier == "thorough" and not os.environ.get("NVSA_NO_META"):
            from . import meta

            per_rule: typing.Dict[str, typing.Dict[str, int]] = {r: {"obligations": 0, "discharged": 0} for r in self.rules}
            for o in self.obligations:
                per_rule.setdefault(o.rule, {"obligations": 0, "discharged": 0})
                per_rule[o.rule]["obligations"] += 1
                per_rule[o.rule]["discharged"] += 1 if o.ok else 0
            results, meta_problems = meta.cross_examine(self.prop, self.tier, self.root, per_rule)
            self.controls = dict(self.controls or {}, metamorphic={
                "what": "the same rules re-run on three behaviour-preserving transformations of the current tree (built in a scratch directory, removed "
                        "afterwards); each must give the same number of obligations and discharges per rule",
                "variants": results,
                "programs_analysed": 1 + len(results),
                "agree": not meta_problems,
            })
        self._write_evidence(violations, matched_known, new_violations)
        n_ob = len(self.obligations)
        print(
            f"[{self.prop}] tier={self.tier} rules={len(self.rules)} obligations={n_ob} "
            f"discharged={n_ob - len(violations)} known={len(matched_known)} new_violations={len(new_violations)} "
            f"wall={time.time() - self.t0:.2f}s"
        )
        if new_violations:
            return 1
        if self.floor_failures:
            raise AnalysisError("; ".join(self.floor_failures))
        if meta_problems:
            raise AnalysisError("the analysis does not decide equivalent programs alike - " + " || ".join(meta_problems))
        return 0

    def _write_evidence(self, violations, matched_known, new_violations) -> None:
        n_ob = len(self.obligations)
        per_rule: typing.Dict[str, typing.Dict[str, int]] = {}
        for o in self.obligations:
            r = per_rule.setdefault(o.rule, {"obligations": 0, "discharged": 0})
            r["obligations"] += 1
            if o.ok:
                r["discharged"] += 1
        # samples: first two obligations of every rule plus every violated one
        samples = []
        seen_per_rule: typing.Dict[str, int] = {}
        for o in self.obligations:
            c = seen_per_rule.get(o.rule, 0)
            if c < 2 or not o.ok:
                samples.append(o.as_dict())
            seen_per_rule[o.rule] = c + 1
        distinct = len({o.key() for o in self.obligations})
        coverage = {
            "explanation": self.explanation
            or "static analysis of the source tree; obligations are rule instances found in the code",
            "obligations": n_ob,
            "discharged": n_ob - len(violations),
            "evaluations": n_ob,
            "distinct_nontrivial": distinct,
            "rule": "one obligation per rule instance (rule id + file + construct path) located in /repo's current "
            "source; distinct = distinct (rule,file,construct) keys; all are non-trivial in that each names a "
            "concrete construct the rule had to decide",
            "rules": {r: {"text": t, **per_rule.get(r, {"obligations": 0, "discharged": 0})} for r, t in self.rules.items()},
            "instance_floors": {r: {"found": f, "floor": m} for r, (f, m) in self.floors.items()},
            "units_analysed": self.units,
            "samples": samples[:60],
            "known_findings_matched": [o.as_dict() for o in matched_known],
            "new_violations": [o.as_dict() for o in new_violations],
            "declined_clauses": self.declined,
            "notes": self.notes,
            "exhaustive": True,
            "checker_cmd": f"./check {self.prop} --tier {self.tier}",
            "trusted_base": [
                "CPython ast / re._parser",
                "the bundled Jinja2 lexer+parser as the definition of how templates parse",
                "PyYAML safe_load",
                "clang 14 -ast-dump=json (C14 only)",
                "pydsdl class hierarchy and attribute units (axioms listed in DESIGN.md section 2)",
            ],
        }
        if self.controls:
            coverage["controls"] = self.controls
        ev = {
            "property_id": self.prop,
            "tier": self.tier,
            "seed": int(os.environ.get("VERIF_SEED", "0") or 0),
            "level": "other",
            "coverage": coverage,
            "assumptions": self.assumptions
            or [
                "decides the listed structural clauses on every path of the current source, not the run-time behaviour",
                "user templates, user configuration overrides and user post-processors are outside the analysed source",
            ],
            "wall_s": round(time.time() - self.t0, 3),
            "violations": len(new_violations),
        }
        self.evidence_dir.mkdir(parents=True, exist_ok=True)
        (self.evidence_dir / f"{self.prop}.json").write_text(json.dumps(ev, indent=1, default=str) + "\n")


def run_check(prop: str, fn, tier: str, root: pathlib.Path, evidence_dir=None) -> int:
    ctx = Ctx(prop, tier, root, evidence_dir)
    try:
        fn(ctx)
        return ctx.finish()
    except AnalysisError as e:
        # an anchor vanished while the analysis was under way.  Violations that were decided before that point are decided: they are
        # reported as such (exit 1); only an analysis that broke without having found anything is "analysis broken" (exit 2)
        known_keys = {(k["rule"], k["file"], k["construct"]) for k in ctx._known()}
        decided = [o for o in ctx.obligations if not o.ok and o.key() not in known_keys]
        if decided:
            os.environ["NVSA_NO_META"] = "1"
            try:
                ctx.finish()
            except AnalysisError:
                pass
            print(f"NOTE property={prop}: the analysis stopped early: {e}")
            return 1
        print(f"ANALYSIS-ERROR property={prop}: {e}")
        return 2
    except Exception as e:  # noqa
        import traceback

        traceback.print_exc(file=sys.stdout)
        print(f"ANALYSIS-ERROR property={prop}: unexpected {type(e).__name__}: {e}")
        return 2
