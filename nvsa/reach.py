"""
Guarded reachability over the package call graph.

region_walk(px, entries, is_guard): visits every (function, statement) reachable from the entries without passing
through a call site or statement whose guard conjunction satisfies `is_guard` (those are pruned: whatever they do is
fine for the rule).  Yields (func, stmt, guards, chain) where chain is the list of call edges from the entry.
"""
import ast
import typing

from . import pyfront
from .pyfront import Func, PyIndex

LOG_HEADS = ("logger", "logging", "log")


def is_logging_call(call: ast.Call) -> bool:
    f = call.func
    while isinstance(f, ast.Attribute):
        f = f.value
    return isinstance(f, ast.Name) and f.id in LOG_HEADS


def local_aliases(f: Func) -> typing.Dict[str, typing.List[ast.AST]]:
    """name -> value expressions assigned to it in the function (single-target assignments only)."""
    out: typing.Dict[str, typing.List[ast.AST]] = {}
    for n in ast.walk(f.node):
        if isinstance(n, ast.Assign) and len(n.targets) == 1 and isinstance(n.targets[0], ast.Name):
            out.setdefault(n.targets[0].id, []).append(n.value)
        elif isinstance(n, ast.AnnAssign) and isinstance(n.target, ast.Name) and n.value is not None:
            out.setdefault(n.target.id, []).append(n.value)
    return out


def _resolve_param(px: PyIndex, f: Func, pname: str, depth: int) -> typing.Optional[typing.List[Func]]:
    """functions a callable parameter of f can be bound to, from every package call site of f; None when some site passes
    something that cannot be resolved (or there is no site)."""
    cands: typing.List[Func] = []
    nsites = 0
    pnames = [a.arg for a in f.node.args.args]
    for caller in px.all_funcs:
        for c in ast.walk(caller.node):
            if not isinstance(c, ast.Call):
                continue
            cname = c.func.attr if isinstance(c.func, ast.Attribute) else (c.func.id if isinstance(c.func, ast.Name) else None)
            if cname != f.name:
                continue
            if f not in px.resolve_call(caller, c):
                continue
            names = pnames[1:] if pnames and pnames[0] in ("self", "cls") and isinstance(c.func, ast.Attribute) else pnames
            val = None
            for k in c.keywords:
                if k.arg == pname:
                    val = k.value
            if val is None and pname in names and names.index(pname) < len(c.args):
                val = c.args[names.index(pname)]
            if val is None:
                continue
            nsites += 1
            if isinstance(val, ast.Attribute):
                cands.extend(g for g in px.by_method_name.get(val.attr, []) if g.cls is not None)
            elif isinstance(val, ast.Name):
                r2 = px.resolve_name(caller.module, val.id)
                cparams = {a.arg for a in caller.node.args.args + caller.node.args.kwonlyargs}
                if val.id in cparams and depth > 0 and caller is not f:
                    sub = _resolve_param(px, caller, val.id, depth - 1)
                    if sub is None:
                        return None
                    cands.extend(sub)
                elif isinstance(r2, Func):
                    cands.append(r2)
                elif val.id in ("str", "repr", "int", "len", "bool"):
                    pass
                else:
                    return None
            elif isinstance(val, ast.Lambda):
                pass  # lambda body is part of the caller's statement and is walked there
            else:
                return None
    return cands if nsites else None


def resolve_callees(px: PyIndex, f: Func, call: ast.Call) -> typing.Tuple[typing.List[Func], str]:
    """(callees, kind) kind: 'resolved' | 'external' | 'indirect' (call of a local variable / parameter)."""
    fn = call.func
    if isinstance(fn, ast.Name):
        r = px.resolve_call(f, call)
        if r:
            return r, "resolved"
        # local variable holding a bound method?
        al = local_aliases(f).get(fn.id)
        if al:
            cands: typing.List[Func] = []
            ok = True
            for v in al:
                vs = [v.body, v.orelse] if isinstance(v, ast.IfExp) else [v]
                for x in vs:
                    if isinstance(x, ast.Attribute):
                        cands.extend(g for g in px.by_method_name.get(x.attr, []) if g.cls is not None)
                    elif (
                        isinstance(x, ast.Call)
                        and isinstance(x.func, ast.Name)
                        and x.func.id == "getattr"
                        and len(x.args) >= 2
                        and isinstance(x.args[1], ast.Constant)
                        and isinstance(x.args[1].value, str)
                    ):
                        # getattr(obj, "name"): every package function/method of that name
                        cands.extend(g for g in px.by_method_name.get(x.args[1].value, []) if g.outer is None)
                    else:
                        ok = False
            if ok and cands:
                return cands, "resolved"
            return [], "indirect"
        # parameter or loop variable?
        top = f
        params = {a.arg for a in f.node.args.args + f.node.args.kwonlyargs}
        loopvars = set()
        for n in ast.walk(f.node):
            if isinstance(n, (ast.For, ast.comprehension)):
                for t in ast.walk(n.target):
                    if isinstance(t, ast.Name):
                        loopvars.add(t.id)
        if fn.id in params and fn.id not in loopvars:
            # callback parameter: resolve through the package call sites of f (a caller that forwards its own parameter is followed)
            cands = _resolve_param(px, f, fn.id, 3)
            if cands is not None:
                return cands, "resolved"
            return [], "indirect"
        if fn.id in params or fn.id in loopvars:
            return [], "indirect"
        return [], "external"
    if isinstance(fn, ast.Call):
        # call of a call result, e.g. Cls.get_instance()(...): the __call__ of the class owning the factory
        inner = px.resolve_call(f, fn)
        outc = []
        for g in inner:
            if g.cls is not None:
                c = g.cls.mro_lookup("__call__")
                if c is not None:
                    outc.append(c)
        if outc:
            return outc, "resolved"
        return [], "external"
    r = px.resolve_call(f, call)
    if r:
        return r, "resolved"
    return [], "external"


def region_walk(
    px: PyIndex,
    entries: typing.Sequence[Func],
    prune: typing.Callable[[Func, typing.Tuple[pyfront.Guard, ...]], bool],
    max_funcs: int = 2000,
):
    seen: typing.Set[str] = set()
    work: typing.List[typing.Tuple[Func, typing.Tuple[str, ...]]] = [(e, (e.short,)) for e in entries]
    while work:
        f, chain = work.pop()
        if f.qual in seen:
            continue
        seen.add(f.qual)
        if len(seen) > max_funcs:
            raise RuntimeError("call graph explosion")
        for st, g in pyfront.walk_guarded(f.node.body, (), descend_funcs=False):
            if prune(f, g):
                continue
            yield f, st, g, chain
            if isinstance(st, (ast.FunctionDef, ast.AsyncFunctionDef)):
                # nested function: analysed when called; conservatively also walk it now
                for nf in px.all_funcs:
                    if nf.node is st:
                        work.append((nf, chain + (nf.short,)))
                continue
            for call in pyfront.expr_calls(st):
                if is_logging_call(call):
                    continue
                callees, kind = resolve_callees(px, f, call)
                for c in callees:
                    work.append((c, chain + (c.short,)))
                # bound methods handed over as callbacks (pattern.sub(self._filter, ...), map(self.m, ...)) are calls too
                for a in list(call.args) + [k.value for k in call.keywords]:
                    if isinstance(a, ast.Attribute) and isinstance(a.value, ast.Name) and a.value.id in ("self", "cls"):
                        top = f
                        while top.outer is not None:
                            top = top.outer
                        if top.cls is not None:
                            m = top.cls.mro_lookup(a.attr)
                            if m is not None:
                                work.append((m, chain + (m.short,)))
    return
