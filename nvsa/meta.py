"""
Thorough tier: metamorphic cross-examination of a check.

The rules decide properties from the *shape* of the source, so the risk peculiar to this technique is a rule that keys on one
spelling of the code: it then passes vacuously (or alarms) on a program that behaves the same.  The thorough tier therefore
re-runs the property's rules on three behaviour-preserving transformations of /repo's current tree, built on the spot in a
scratch directory that is removed afterwards:

  alpha-renamed        every Python local, every parameter of a private function, every template local, macro parameter and
                       private macro renamed (tools/alpha_rename.py, tools/alpha_rename_j2.py)
  equiv-rewritten      comparisons mirrored, if/else inverted, modules re-emitted by ast.unparse (tools/equiv_rewrite.py)
  template-if-inverted every `{% if c %}A{% else %}B{% endif %}` analysed as `{% if not c %}B{% else %}A{% endif %}`

and demands the same verdict with the same number of obligations and discharges per rule.  A disagreement means the analysis -
not the repository - is unsound or imprecise somewhere: it is reported as ANALYSIS-ERROR (exit 2), never as a violation.
"""
import json
import os
import pathlib
import shutil
import subprocess
import sys
import tempfile
import typing
from concurrent.futures import ThreadPoolExecutor

VERIF = pathlib.Path(__file__).resolve().parent.parent


def cross_examine(prop: str, tier: str, root: pathlib.Path, base_rules: typing.Dict[str, typing.Dict[str, int]]):
    tmp = pathlib.Path(tempfile.mkdtemp(prefix=f"nvsa-meta-{prop}-"))
    env0 = dict(os.environ, NVSA_NO_META="1", NVSA_SRC_ROOT=str(root))

    def build(label):
        tree = tmp / label / "tree"
        if label == "alpha-renamed":
            cmds = [[str(VERIF / "tools" / "alpha_rename.py"), str(tree)], [str(VERIF / "tools" / "alpha_rename_j2.py"), str(tree), "--keep-tree"]]
        elif label == "equiv-rewritten":
            cmds = [[str(VERIF / "tools" / "equiv_rewrite.py"), str(tree)]]
        else:
            return root, {"NVSA_J2_EQUIV": "1"}
        for c in cmds:
            r = subprocess.run([sys.executable] + c, capture_output=True, text=True, timeout=600, env=env0)
            if r.returncode != 0:
                raise RuntimeError(f"{label}: {pathlib.Path(c[0]).name} failed: {(r.stdout + r.stderr)[-300:]}")
        return tree, {}

    def one(label):
        try:
            tree, extra = build(label)
        except Exception as e:  # noqa
            return label, {"error": str(e)}
        ev = tmp / label / "ev"
        r = subprocess.run([sys.executable, str(VERIF / "check"), prop, "--tier", tier, "--root", str(tree), "--evidence-dir", str(ev)],
                           capture_output=True, text=True, timeout=3600, env=dict(env0, **extra))
        res: typing.Dict[str, typing.Any] = {"exit": r.returncode}
        try:
            d = json.loads((ev / f"{prop}.json").read_text())
            res["rules"] = {k: {"obligations": v["obligations"], "discharged": v["discharged"]} for k, v in d["coverage"]["rules"].items()}
            res["obligations"] = d["coverage"]["obligations"]
        except Exception as e:  # noqa
            res["error"] = f"no evidence from the run ({type(e).__name__}); output: {(r.stdout + r.stderr)[-300:]}"
        if r.returncode != 0:
            res["report"] = [ln.strip()[:240] for ln in (r.stdout + r.stderr).splitlines() if "violated" in ln or "ANALYSIS" in ln][:5]
        return label, res

    try:
        with ThreadPoolExecutor(max_workers=3) as ex:
            results = dict(ex.map(one, ["alpha-renamed", "equiv-rewritten", "template-if-inverted"]))
    finally:
        shutil.rmtree(tmp, ignore_errors=True)
    base = {k: {"obligations": v["obligations"], "discharged": v["discharged"]} for k, v in base_rules.items()}
    disagreements = []
    for label, res in results.items():
        if "error" in res:
            disagreements.append(f"{label}: {res['error']}")
        elif res.get("rules") != base:
            diff = {k: (base.get(k), res["rules"].get(k)) for k in set(base) | set(res["rules"]) if base.get(k) != res["rules"].get(k)}
            disagreements.append(f"{label}: per-rule (obligations, discharged) differ from the tree's: {diff}" + (f"; {res.get('report')}" if res.get("report") else ""))
        res["agrees"] = "error" not in res and res.get("rules") == base
        res.pop("rules", None)
    return results, disagreements
